#!/bin/sh
# tools/rerun_one.sh <seeded dir>: run the checks again against one kept change (repository tests were confirmed when it
# was imported and are not repeated); the earlier test confirmation is carried over into the new result.json
d="$1"
/venv/bin/python /verif/tools/try_mutant.py "$d" --props auto --skip-tests > "$d/result.new.json" 2>/dev/null
/venv/bin/python - "$d" <<'PY'
import json, os, sys
d = sys.argv[1]
new = json.load(open(os.path.join(d, "result.new.json")))
try:
    old = json.load(open(os.path.join(d, "result.json")))
except Exception:
    old = {}
for k in ("tests_same", "tests_diff"):
    if k not in new and k in old:
        new[k] = old[k]
json.dump(new, open(os.path.join(d, "result.json"), "w"), indent=1)
os.remove(os.path.join(d, "result.new.json"))
print(os.path.basename(d), {k: v["exit"] for k, v in new.get("fired", {}).items()})
PY
