#!/bin/sh
# Run every check of MANIFEST.json (quick tier by default) and summarise; rewrites all evidence files.
cd "$(dirname "$0")/.." || exit 2
tier="${1:-quick}"
rc=0
for p in $(/venv/bin/python -c "import json;print(' '.join(c['property_id'] for c in json.load(open('MANIFEST.json'))['checks']))"); do
  out=$(./check "$p" --tier "$tier" 2>&1); code=$?
  echo "$out" | grep -E "^(HELD|VIOLATED|VIOLATION|KNOWN-FINDING|HARNESS|NO-VERDICT)" 
  [ $code -ne 0 ] && rc=1 && echo "  -> exit $code for $p"
done
exit $rc
