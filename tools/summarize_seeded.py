#!/usr/bin/env python3
import glob, json, os
for d in sorted(glob.glob("/verif/seeded/*")):
    r = os.path.join(d, "result.json")
    if not os.path.exists(r):
        print(os.path.basename(d), "NO RESULT"); continue
    try:
        j = json.load(open(r))
    except Exception as e:
        print(os.path.basename(d), "BAD RESULT", open(r).read()[:100].replace("\n", " ")); continue
    fired = j.get("fired", {})
    print(f"{os.path.basename(d):8s} tests_same={j.get('tests_same')} demo={j.get('demo_fails_with_change')}/{j.get('demo_passes_without')} fired={ {k: v['exit'] for k, v in fired.items()} }")
