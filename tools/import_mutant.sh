#!/bin/sh
# tools/import_mutant.sh <prop e.g. c17> <N>  : copy /tmp/wt-<prop>/out/mutantN.* into seeded/<prop>-mN/ and try it
p="$1"; n="$2"; d="/verif/seeded/$p-m$n"
mkdir -p "$d"
cp "/tmp/wt-$p/out/mutant$n.diff" "$d/patch.diff" || exit 1
cp "/tmp/wt-$p/out/demo$n.py" "$d/demo.py" 2>/dev/null
cp "/tmp/wt-$p/out/mutant$n.md" "$d/notes.md" 2>/dev/null
sed -i "s#/tmp/wt-$p#.#g" "$d/demo.py" 2>/dev/null
shift 2
/venv/bin/python /verif/tools/try_mutant.py "$d" "$@" | tee "$d/result.json"
