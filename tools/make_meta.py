#!/usr/bin/env python3
"""Build seeded/<id>/meta.json from result.json (+ notes.md) and print a markdown table for DESIGN.md."""
import glob
import json
import os
import re

rows = []
for d in sorted(glob.glob("/verif/seeded/*")):
    sid = os.path.basename(d)
    rj = os.path.join(d, "result.json")
    if not os.path.exists(rj):
        continue
    try:
        r = json.load(open(rj))
    except Exception:
        continue
    notes = open(os.path.join(d, "notes.md")).read() if os.path.exists(os.path.join(d, "notes.md")) else ""
    text = re.sub(r"\s+", " ", re.sub(r"[#*`]", "", notes)).strip()
    prop = "C" + sid[1:3]
    origin = "written by an independent sub-agent that saw only the property text and a scratch worktree"
    if re.search(r"-s\d+$", sid):
        origin = "written by the author of the checks (not a sub-agent) to exercise one particular seam; see notes.md"
    if re.search(r"-[hgknpqu]\d+$", sid):
        m = re.findall(r"\bC(\d\d)\b", notes)
        prop = "C" + m[0] if m else "see notes"
        origin = "written by an independent sub-agent that saw the 19 property statements and a scratch worktree, asked for the hardest-to-detect change in one source area"
    old = {}
    if os.path.exists(os.path.join(d, "meta.json")):
        try:
            old = json.load(open(os.path.join(d, "meta.json")))
        except Exception:
            old = {}
    fired = r.get("fired", {})
    meta = {
        "id": sid,
        "property_broken": prop,
        "origin": origin,
        "what_and_needs": text[:1200],
        "confirmed": {
            "repository_tests_unchanged": r.get("tests_same"),
            "demo_fails_with_change": r.get("demo_fails_with_change"),
            "demo_passes_without_change": r.get("demo_passes_without"),
        },
        "ran": f"tools/try_mutant.py seeded/{sid} --tier {r.get('tier', 'quick')}  (scratch worktree of /repo under /dev/shm, repository tests before/after, demo before/after, then the listed checks with VERIF_REPO pointing at the worktree)",
        "checks_run": r.get("props") or "all",
        "caught_by": {k: {"exit": v["exit"], "signatures": [s.split(":")[0] + ":" + s.split(":")[1] if s.count(":") > 1 else s[:80] for s in v.get("signatures", [])][:4]} for k, v in fired.items()},
    }
    if old.get("disposition"):
        meta["disposition"] = old["disposition"]
    json.dump(meta, open(os.path.join(d, "meta.json"), "w"), indent=1, ensure_ascii=False)
    caught = ", ".join(f"{k}" + ("" if v["exit"] == 1 else f"(exit {v['exit']})") for k, v in sorted(fired.items())) or "**none**"
    first = text.split(". ")[0][:150]
    rows.append(f"| {sid} | {prop} | {first} | {caught} |")
print("| seeded change | targets | mechanism (first sentence of the author's note) | checks that report a violation |")
print("|---|---|---|---|")
print("\n".join(rows))
