#!/usr/bin/env python3
"""Print evaluations / wall time per property from evidence/ and evidence_thorough/ (for DESIGN.md section 0)."""
import json
import os

HERE = os.path.dirname(os.path.dirname(os.path.abspath(__file__)))
for i in range(1, 20):
    pid = "C%02d" % i
    row = [pid]
    for d in ("evidence", "evidence_thorough"):
        p = os.path.join(HERE, d, pid + ".json")
        if not os.path.exists(p):
            row.append("-")
            continue
        e = json.load(open(p))
        c = e.get("coverage", e)
        n = c.get("evaluations") or c.get("traces") or e.get("evaluations")
        row.append(f"{n} / {round(e.get('wall_s', 0))} s")
    print(" | ".join(map(str, row)))
