#!/usr/bin/env python3
"""Regenerate /verif/MANIFEST.json from the property modules that exist under props/."""
import json
import os

HERE = os.path.dirname(os.path.dirname(os.path.abspath(__file__)))

# id -> (category, technique, level text, level note, design ref)
CLAIMS = {
    "C01": ("exploration", "bounded exhaustive input enumeration on the real API over a socketpair + frame monitor",
            "every frame written by every operation of both APIs (19 shapes), swept over each byte of id/key/session/clock, every IR text length 1..2000, names over 1-4 byte code points and combining marks, C02's argument sweep, and - after a good login - every later step answered with truncated/corrupted/empty/over-long replies, is checked for magic, length, terminator and an independently computed double CRC",
            "socketpair stands in for TCP; stream transport, binascii and struct are trusted; argument interactions beyond per-field sweeps and corner pairs are not enumerated", "5/C01"),
    "C02": ("exploration", "bounded exhaustive input enumeration against a table-driven reference frame layout",
            "every command frame is compared byte for byte with the frame an independent reference encoder builds from the caller's arguments, over full per-field domains, positional and keyword calls, device-id bytes and six DST zones for schedules; rejected arguments must raise with at most the login frame written",
            "fixed bytes of templates no repository test pins are a transcription of the pinned tree (regression oracle)", "5/C02"),
    "C03": ("model_checking", "stateless exploration of operation sequences and of all reply-order interleavings of two API instances on a controlled asyncio loop, plus BFS with state hashing",
            "all operation sequences to depth 3 (thorough 5) incl. failing, aborted, slow-reply and abandoned (cancelled) variants and special session ids, one connection living through 300 (600) operations, the same with a frozen clock and in non-UTC zones, and all reply-order interleavings of two instances (same and different host) are executed on the real client; each connection's frame log is checked against the login-then-commands session model; the state graph over (object state, module-state digest) closes",
            "deterministic single-threaded asyncio; the only scheduling freedom is which pending read is answered next; state outside the fingerprint (closures, C objects) is covered only to the stateless depth", "5/C03"),
    "C04": ("model_checking", "explicit-state enumeration of the CRC-16 automaton (65,536 states x 256 inputs) replayed through the real signer, closed by induction on length",
            "all strings of length 0..2 reach every CRC state; every transition from every state is replayed through the real signer, which covers all byte strings by induction; structured long strings up to 1 MiB, bit flips of real frames and systematic non-hex inputs",
            "binascii.crc_hqx is a left fold over bytes (also checked on split points); hex parsing by binascii.unhexlify", "5/C04"),
    "C05": ("exploration", "bounded exhaustive input enumeration through a running bridge on loopback UDP against a reference broadcast encoder",
            "for all 9 device types and both states every field is swept over its domain, sent as a real datagram to a running bridge, and the delivered device compared field by field with what was encoded",
            "reference encoder validated against the captures in tests/testresources; loopback UDP is FIFO and lossless for one sender", "5/C05"),
    "C06": ("exploration", "bounded exhaustive input enumeration of datagram lengths, magic variants and all 65,536 model codes through a running bridge",
            "every length 0..400 x magic variants x fills, captures +-1..3 bytes and every model code are sent to a running bridge; callbacks, warnings, loop exception-handler calls and log records are compared with the gate predicate",
            "content inside gate-passing frames with a known model code is not judged here", "5/C06"),
    "C07": ("model_checking", "stateless exploration of all datagram sequences x port assignments x event-loop service orders x raising callbacks on a controlled selector",
            "every order in which the loop can service ready ports is enumerated for every datagram sequence to the bound, with the user callback raising (four exception kinds) on chosen invocations; the per-port callback log must equal the reference decode of that port's valid datagrams; plus seven callback shapes, the four well-known default ports, eleven kinds of sender address, a bridge object dropped after start, and runs of up to 130 (1030) consecutive failures on one port",
            "one datagram is read per readiness event (asyncio selector datagram transport); kernel queues are FIFO per socket", "5/C07"),
    "C08": ("exploration", "bounded exhaustive input enumeration of reply fields through the real state queries against a reference reply encoder",
            "every reply field is swept over its whole domain through get_state / get_shutter_state / get_breeze_state on a real stream and compared with the reference decode",
            "reply encoder validated against the captured replies in tests/testresources", "5/C08"),
    "C09": ("fault_enumeration", "exhaustive fault enumeration: every operation x every exchange step x {EOF, every prefix, single-byte corruptions, constant fills}",
            "each fault from the alphabet is injected at each step of each operation's exchange; the caller must see a parsed response or RuntimeError (state queries), success iff non-empty (generic), and no frame after a failed login",
            "an empty reply over a stream is end-of-stream; socket resets are outside the alphabet", "5/C09"),
    "C10": ("exploration", "bounded exhaustive input enumeration of schedule replies and create->list round trips under a virtual clock and real tzset zones",
            "record counts 0..8, all ids, all masks, all minutes, every combination of the flag bytes, ten zones, transition dates and dates from 2038 to 2106; the record captured from create_schedule is listed back and must parse to the caller's arguments",
            "zoneinfo is the independent oracle; glibc zone code is what the library calls", "5/C10"),
    "C11": ("exploration", "bounded exhaustive input enumeration: all 1440 minutes x zones x dates under a virtual clock",
            "every minute of the day in every listed zone on every listed date is encoded and decoded under a pinned clock and the epoch value compared with zoneinfo; every call is also run with the clock passing midnight before each of its clock reads",
            "time-machine pins time.time/localtime/strftime; zones via TZ+tzset", "5/C11"),
    "C12": ("exploration", "complete enumeration of the finite input space (plus second-use probes and a python -O pass)",
            "all 127 subsets in every accepted form, all sequences of length <=3, all masks -1..256: the space is finite and enumerated completely",
            "odd masks are not judged", "5/C12"),
    "C13": ("exploration", "bounded exhaustive input enumeration: weekdays x day sets x minute grid x zones under a virtual clock",
            "7 weekdays x 128 day sets x a minute grid with equality and both neighbours x zones east and west of UTC, compared with an earliest-occurrence reference; every call is also run with the clock passing midnight / the start minute before each of its clock reads",
            "time-machine pins the clock; the local date supplies the weekday", "5/C13"),
    "C14": ("exploration", "complete enumeration of all 1440 x 1440 pairs",
            "every (start, end) pair is evaluated against modular arithmetic; a subset again in DST zones and with today on leap days, year ends and dates after 2038", "none beyond the HH:MM alphabet", "5/C14"),
    "C15": ("exploration", "bounded exhaustive input enumeration of generated IR sets x all requests against a reference key-selection model",
            "generated IR sets whose code text names its own key are crossed with every request; the built payload reveals the chosen key, which is compared with the reference model; capabilities and the manager cache are enumerated too",
            "IR sets are generated, not the vendor database (empty in this tree)", "5/C15"),
    "C16": ("model_checking", "stateless exploration of the thermostat control exchange: reported states x requests x remote kinds x update flag x EOF at each step",
            "every path of the login/get-state/command/swing exchange is executed against a fake device and the frames decoded and compared with the merge model; an empty reply at every step must not report success",
            "socketpair stands in for TCP; requests deviate from a base in quick, full product in thorough", "5/C16"),
    "C17": ("model_checking", "stateless exploration of all action sequences to a depth + BFS with state hashing to a fixpoint on real UDP sockets + TLC-checked TLA+ model with every edge replayed on the implementation",
            "all enabled sequences over start/stop/send/occupy/release/context actions (bodies raising three kinds of exception) are executed on a real bridge with real sockets; after every action is_running, port bindability and probe delivery are compared with the lifecycle model; BFS to a fixpoint; a TLA+ model checked by TLC with every edge of its state graph replayed on the bridge; in-flight datagrams for every delay before stop; twin bridges (disjoint and shared port); unusable port numbers; start() cancelled after every number of loop iterations; one bridge moved to a second event loop",
            "ports are private to the harness (flock-ed block outside the ephemeral range)", "5/C17"),
    "C18": ("model_checking", "stateless exploration of all action sequences to a depth + BFS with state hashing to a fixpoint on a controlled loop + TLC-checked TLA+ model with every edge replayed on the implementation",
            "all enabled sequences over 14 actions (connect, refused, four kinds of operation incl. one abandoned by its caller, five context bodies, refused context, device drop, disconnect) for both API classes are executed on the real client; after every action the connected flag and the device-side end-of-stream are compared with the lifecycle model; BFS to a fixpoint; a TLA+ model checked by TLC with every edge replayed on the client; twin clients; one client moved to a second event loop; disconnect() cancelled after every number of loop iterations; a real-TCP subset",
            "socketpair stands in for TCP except in the real-TCP subset of the thorough tier", "5/C18"),
    "C19": ("exploration", "complete enumeration of the finite table space (four construction styles incl. an empty subclass, four rounds, a python -O pass)",
            "all 9 types x 4 classes and every category in both port tables are enumerated", "none", "5/C19"),
}


def main():
    props = []
    with open(os.path.join(HERE, "properties.jsonl")) as fh:
        for line in fh:
            if line.strip():
                props.append(json.loads(line))
    checks, na = [], []
    for p in props:
        pid = p["id"]
        if os.path.exists(os.path.join(HERE, "props", pid.lower() + ".py")):
            cat, tech, text, note, ref = CLAIMS[pid]
            checks.append({
                "property_id": pid,
                "quick_cmd": f"./check {pid} --tier quick",
                "thorough_cmd": f"./check {pid} --tier thorough",
                "evidence_file": f"/verif/evidence/{pid}.json",
                "replay_cmd_template": f"./check {pid} --replay {{path}}",
                "engine": "mc",
                "level_claimed": {"category": cat, "text": text, "design_ref": f"DESIGN.md section {ref}"},
                "level_note": note,
                "technique": tech,
            })
        else:
            na.append({"property_id": pid, "reason": "check not built yet in this round (planned, see DESIGN.md section 5); not a claim that the technique cannot apply"})
    manifest = {
        "version": 1,
        "setup_cmd": "./setup.sh",
        "hooks": {
            "guard": "AIOSWITCHER_VERIF",
            "enable": "no source hooks are needed: checks import /repo/src directly and set AIOSWITCHER_VERIF=1 (unused by the library)",
            "baseline_off_cmd": "cd /repo && /venv/bin/python -m pytest -ra -q -p no:cacheprovider --timeout=900 --continue-on-collection-errors",
            "source_commits": [],
            "add_only": True,
        },
        "engines": [{
            "name": "mc",
            "path": "/verif/mc",
            "serves_properties": [c["property_id"] for c in checks],
            "kind_free_text": "hand-written explicit-state / stateless explorer for Python: controlled asyncio loop (socketpair TCP, real UDP with a controlled selector), virtual clock and zones, complete input-domain sweeps, reference models in /verif/ref",
        }],
        "checks": checks,
        "not_applicable": na,
        "notes": "All checks run /venv/bin/python against /repo/src as it is on disk. See DESIGN.md.",
    }
    with open(os.path.join(HERE, "MANIFEST.json"), "w") as fh:
        json.dump(manifest, fh, indent=1)
        fh.write("\n")
    try:
        import jsonschema
        jsonschema.validate(manifest, json.load(open("/root/.vp/MANIFEST.schema.json")))
        print("MANIFEST.json valid;", len(checks), "checks,", len(na), "not_applicable")
    except ImportError:
        print("MANIFEST.json written (jsonschema not available to validate)")


if __name__ == "__main__":
    main()
