#!/usr/bin/env python3
"""Apply a seeded change to a scratch worktree of /repo, confirm it (tests unchanged, demo fails with /
passes without), run the checks against it and report which ones fire.

usage: tools/try_mutant.py <dir containing patch.diff [demo.py]> [--tier quick] [--props C01,C02] [--keep]
Nothing under /repo or /verif/evidence is touched: the worktree lives in /dev/shm and the checks
write their evidence and replays into it.
"""
import argparse
import json
import os
import re
import shutil
import subprocess
import sys

HERE = os.path.dirname(os.path.dirname(os.path.abspath(__file__)))
FLAKY = {"test_pretty_next_run_with_todays_day_should_return_due_today",  # fails 23:00-24:00 UTC on the pinned tree
         "test_hexadecimale_timestamp_to_localtime_with_the_current_timestamp_should_return_a_time_string"}  # fails in the last half second of a minute


def sh(cmd, **kw):
    return subprocess.run(cmd, shell=True, text=True, capture_output=True, **kw)


def failing_tests(wt):
    r = sh(f"cd {wt} && PYTHONPATH={wt}/src /venv/bin/python -m pytest -q -p no:cacheprovider --timeout=900 --continue-on-collection-errors -rf 2>&1 | grep -E '^(FAILED|ERROR)' | sed 's/ - .*//' | sort")
    return {l.strip() for l in r.stdout.splitlines() if l.strip() and not any(f in l for f in FLAKY)}


def main():
    ap = argparse.ArgumentParser()
    ap.add_argument("dir")
    ap.add_argument("--tier", default="quick")
    ap.add_argument("--props", default="")
    ap.add_argument("--keep", action="store_true")
    ap.add_argument("--skip-tests", action="store_true")
    a = ap.parse_args()
    d = os.path.abspath(a.dir)
    patch = os.path.join(d, "patch.diff")
    wt = f"/dev/shm/aiosw-mut-{os.getpid()}"
    out = {"dir": d, "tier": a.tier}
    sh(f"git -C /repo worktree add -q --detach {wt} HEAD")
    try:
        if not a.skip_tests:
            base_fail = failing_tests(wt)
        r = sh(f"git -C {wt} apply --whitespace=nowarn {patch}")
        if r.returncode != 0:
            r = sh(f"cd {wt} && patch -p1 --ignore-whitespace < {patch}")
        if r.returncode != 0:
            print("PATCH DOES NOT APPLY", r.stderr[-500:])
            return 2
        if not a.skip_tests:
            mut_fail = failing_tests(wt)
            out["tests_same"] = mut_fail == base_fail
            out["tests_diff"] = sorted(mut_fail ^ base_fail)
        demo = os.path.join(d, "demo.py")
        if os.path.exists(demo):
            r1 = sh(f"cd {wt} && PYTHONPATH={wt}/src timeout 120 /venv/bin/python {demo}")
            r0 = sh(f"cd /repo && PYTHONPATH=/repo/src timeout 120 /venv/bin/python {demo}")
            out["demo_fails_with_change"] = r1.returncode != 0
            out["demo_passes_without"] = r0.returncode == 0
            if r0.returncode != 0:
                out["demo_clean_output"] = (r0.stdout + r0.stderr)[-400:]
        if a.props == "auto":
            # the checks of every property anchored in a file the patch touches
            touched = set(re.findall(r"^\+\+\+ b/(\S+)", open(patch).read(), re.M))
            props = []
            for line in open(os.path.join(HERE, "properties.jsonl")):
                if line.strip():
                    pr = json.loads(line)
                    if touched & set(pr["anchors"]["files"]):
                        props.append(pr["id"])
            target = "C" + os.path.basename(d)[1:3]
            if re.fullmatch(r"C\d\d", target) and target not in props:
                props.append(target)  # always the property the change was written against
            out["props"] = props
        else:
            props = [p for p in a.props.split(",") if p] or [c["property_id"] for c in json.load(open(os.path.join(HERE, "MANIFEST.json")))["checks"]]
        env = dict(os.environ, VERIF_REPO=wt, VERIF_EVIDENCE_DIR=os.path.join(wt, ".verif-evidence"), VERIF_REPLAY_DIR=os.path.join(wt, ".verif-replays"))
        fired = {}
        for p in props:
            r = subprocess.run([os.path.join(HERE, "check"), p, "--tier", a.tier], text=True, capture_output=True, env=env)
            lines = [l for l in r.stdout.splitlines() if not l.startswith("VIOLATION")]
            sigs = [l.strip()[:260] for l in lines if l.startswith("  ")]
            if r.returncode != 0:
                fired[p] = {"exit": r.returncode, "signatures": sigs[:6]}
                if r.returncode != 1:
                    fired[p]["tail"] = (r.stdout + r.stderr)[-600:]
        out["fired"] = fired
        print(json.dumps(out, indent=1, ensure_ascii=False))
        return 0
    finally:
        if not a.keep:
            sh(f"git -C /repo worktree remove --force {wt}")
            shutil.rmtree(wt, ignore_errors=True)
            sh("git -C /repo worktree prune")


if __name__ == "__main__":
    sys.exit(main())
