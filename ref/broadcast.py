"""Reference encoder for status broadcasts (device -> everyone, UDP), and what the receiver must report.

Templates are real captures (tests/testresources/test_device_parsing) copied here as literals;
fields are placed at the protocol's offsets:

  common    18-20 device id | 40 login key | 42-73 name (UTF-8, zero padded) | 74-75 model code
  type 1    (165 bytes)  76-79 IPv4 | 80-85 MAC | 133 state | 135-136 watts LE16 |
            147-150 remaining LE32 | 155-158 auto-shutdown LE32
  type 2    76 = 00, 77-80 IPv4 | 81-86 MAC
  shutter   (159 bytes)  135 position | 137-138 direction (00 00 stop, 01 00 up, 00 01 down)
  breeze    (168 bytes)  135-136 temperature tenths LE16 | 137 power | 138 mode | 139 target |
            140 fan<<4|swing | 143-150 remote id (8 ASCII characters)
"""
import struct

from . import crc

HEATER_T = bytes.fromhex(
    "fef0a500023c020000000000841201000000aaaaaa0000007ff6c26000000000000000000000f0fe03004d7920537769746368657220426f696c6572"
    "000000000000000000000000000001a7c0a8012112a1a21abc1a000000000000000002537769746368657220426f696c65722043463842000000000000"
    "000000000000020400001c000100280a00004b9589c0000000001815000000000000302a00000102aa3461dd")
BREEZE_T = bytes.fromhex(
    "fef0a800040002000000000050e0010000003a20b70000009b62966200000000000000000000f0fe0800537769746368657220427265657a655f3536"
    "37390000000000000000000000000e0100c0a8324dbcff4d4a567900000700000000030253776974636865725f427265657a655f3536373900000000"
    "0000000000000000020400001e00011901000218000007454c45433730323200000000280000000000000002433ded03")
RUNNER_T = bytes.fromhex(
    "fef09f000402020000000000120701000000f2239a0000006485966200000000000000000000f0fe060053776974636865722052756e5f3145343200"
    "00000000000000000000000000000c0200c0a8326294b97e011e4202020000010000030253776974636865722052756e5f314534320000000000000000"
    "00000000000000020400001500041800000001010000000000000000000000000000ad6b23b9")

# type name -> (model code, family, class name, category)
TYPES = {
    "MINI": ("030f", "heater"), "POWER_PLUG": ("01a8", "plug"), "TOUCH": ("030b", "heater"), "V2_ESP": ("01a7", "heater"),
    "V2_QCA": ("01a1", "heater"), "V4": ("0317", "heater"), "BREEZE": ("0e01", "breeze"), "RUNNER": ("0c01", "runner"),
    "RUNNER_MINI": ("0c02", "runner"),
}
CLASS = {"heater": "SwitcherWaterHeater", "plug": "SwitcherPowerPlug", "breeze": "SwitcherThermostat", "runner": "SwitcherShutter"}
DIRS = {"stop": b"\x00\x00", "up": b"\x01\x00", "down": b"\x00\x01"}
DIRNAME = {"stop": "SHUTTER_STOP", "up": "SHUTTER_UP", "down": "SHUTTER_DOWN"}
MODES = {"auto": 1, "dry": 2, "fan": 3, "cool": 4, "heat": 5}
FANS = {"auto": 0, "low": 1, "medium": 2, "high": 3}

DEFAULTS = dict(
    device_id="aaaaaa", key=0x18, ip=(192, 168, 1, 33), mac=(0x12, 0xA1, 0xA2, 0x1A, 0xBC, 0x1A), name="My Switcher Boiler",
    on=True, watts=2600, remaining=5400, auto_off=10800, position=24, direction="stop", mode="cool", temp=281, target=24,
    fan="low", swing=False, remote="ELEC7022",
)


def encode(type_name, **f):
    """Bytes of a well-formed status broadcast of `type_name` carrying the given fields."""
    g = dict(DEFAULTS)
    g.update(f)
    code, fam = TYPES[type_name]
    b = bytearray({"heater": HEATER_T, "plug": HEATER_T, "breeze": BREEZE_T, "runner": RUNNER_T}[fam])
    b[18:21] = bytes.fromhex(g["device_id"])
    b[40] = g["key"]
    nm = g["name"].encode("utf-8") if isinstance(g["name"], str) else bytes(g["name"])
    assert 0 < len(nm) <= 32
    b[42:74] = nm + bytes(32 - len(nm))
    b[74:76] = bytes.fromhex(f.get("model_code", code))
    if fam in ("heater", "plug"):
        b[76:80] = bytes(g["ip"])
        b[80:86] = bytes(g["mac"])
        b[133] = 1 if g["on"] else 0
        b[135:139] = struct.pack("<I", g["watts"])
        b[147:151] = struct.pack("<I", g["remaining"])
        b[155:159] = struct.pack("<I", g["auto_off"])
    else:
        b[76] = 0
        b[77:81] = bytes(g["ip"])
        b[81:87] = bytes(g["mac"])
        if fam == "runner":
            b[135] = g["position"]
            b[136] = 0
            b[137:139] = DIRS[g["direction"]]
        else:
            b[135:137] = struct.pack("<H", g["temp"])
            b[137] = 1 if g["on"] else 0
            b[138] = MODES[g["mode"]]
            b[139] = g["target"]
            b[140] = (FANS[g["fan"]] << 4) | (1 if g["swing"] else 0)
            r = g["remote"].encode("ascii")
            assert len(r) == 8
            b[143:151] = r
    for off, val in f.get("poke", ()):
        b[off] = val
    b[-4:] = crc.signature(bytes(b[:-4]))
    return bytes(b)


def modelled_offsets(type_name):
    """Byte positions that carry a modelled field (or the frame header) for this family."""
    fam = TYPES[type_name][1]
    pos = set(range(0, 4)) | {18, 19, 20, 40} | set(range(42, 76))
    if fam in ("heater", "plug"):
        pos |= set(range(76, 86)) | {133} | set(range(135, 139))
        if fam == "heater":
            pos |= set(range(147, 151)) | set(range(155, 159))
    else:
        pos |= set(range(77, 87))
        if fam == "runner":
            pos |= {135, 136, 137, 138}
        else:
            pos |= set(range(135, 141)) | set(range(143, 151))
    return pos


def hms(seconds):
    return "%02d:%02d:%02d" % (seconds // 3600, seconds // 60 % 60, seconds % 60)


def expected(type_name, **f):
    """What the callback's device object must report for encode(type_name, **f)."""
    g = dict(DEFAULTS)
    g.update(f)
    g.pop("poke", None)
    code, fam = TYPES[type_name]
    nm = g["name"] if isinstance(g["name"], str) else bytes(g["name"]).decode("utf-8")
    e = {
        "class": CLASS[fam],
        "device_type": type_name,
        "device_id": g["device_id"],
        "device_key": "%02x" % g["key"],
        "ip_address": "%d.%d.%d.%d" % tuple(g["ip"]),
        "mac_address": ":".join("%02X" % x for x in g["mac"]),
        "name": nm,
    }
    if fam in ("heater", "plug"):
        on = g["on"]
        e["device_state"] = "ON" if on else "OFF"
        e["power_consumption"] = g["watts"] if on else 0
        e["_watts_for_amps"] = g["watts"] if on else 0
        if fam == "heater":
            e["remaining_time"] = hms(g["remaining"]) if on else "00:00:00"
            e["auto_shutdown"] = hms(g["auto_off"])
    elif fam == "runner":
        e["position"] = g["position"]
        e["direction"] = DIRNAME[g["direction"]]
    else:
        e["device_state"] = "ON" if g["on"] else "OFF"
        e["mode"] = g["mode"].upper()
        e["temperature"] = g["temp"] / 10
        e["target_temperature"] = g["target"]
        e["fan_level"] = g["fan"].upper()
        e["swing"] = "ON" if g["swing"] else "OFF"
        e["remote_id"] = g["remote"]
    return e


def observe(dev):
    """Flatten a device object delivered to the callback into comparable values."""
    o = {"class": type(dev).__name__}
    for k in ("device_id", "device_key", "ip_address", "mac_address", "name", "power_consumption", "remaining_time", "auto_shutdown",
              "position", "temperature", "target_temperature", "remote_id", "electric_current"):
        if hasattr(dev, k):
            o[k] = getattr(dev, k)
    for k in ("device_type", "device_state", "direction", "mode", "fan_level", "swing"):
        if hasattr(dev, k):
            o[k] = getattr(getattr(dev, k), "name", repr(getattr(dev, k)))
    return o


def compare(exp, obs):
    """List of (field, expected, observed) mismatches."""
    bad = []
    for k, v in exp.items():
        if k == "_watts_for_amps":
            a = obs.get("electric_current")
            w = v
            if not (isinstance(a, float) and abs(a - w / 220.0) <= 0.05 + 1e-9 and abs(a * 10 - round(a * 10)) < 1e-6):
                bad.append(("electric_current", round(w / 220.0, 1), a))
            continue
        o = obs.get(k, "<missing>")
        if k == "temperature" and isinstance(o, (int, float)) and abs(o - v) < 1e-9:
            continue
        if o != v or not isinstance(o, type(v)) or (type(v) is int and isinstance(o, bool)):
            bad.append((k, v, o))
    return bad


def selftest():
    # captures re-encode byte for byte (outside the signature) from the values legible in them / asserted by the repository's tests
    h = encode("V2_ESP", name="My Switcher Boiler", key=3)
    assert h[:-4] == HEATER_T[:-4], "heater capture does not re-encode"
    br = encode("BREEZE", device_id="3a20b7", key=8, ip=(192, 168, 50, 77), mac=(0xBC, 0xFF, 0x4D, 0x4A, 0x56, 0x79), name="Switcher Breeze_5679",
                on=False, mode="dry", temp=281, target=24, fan="auto", swing=False, remote="ELEC7022")
    assert br[:-4] == BREEZE_T[:-4], "breeze capture does not re-encode"
    ru = encode("RUNNER_MINI", device_id="f2239a", key=6, ip=(192, 168, 50, 98), mac=(0x94, 0xB9, 0x7E, 0x01, 0x1E, 0x42), name="Switcher Run_1E42",
                position=24, direction="stop")
    assert ru[:-4] == RUNNER_T[:-4], "runner capture does not re-encode"
    assert len(h) == 165 and len(br) == 168 and len(ru) == 159
