"""Zones, dates and local-time arithmetic for the clock properties (oracle side: zoneinfo only)."""
import datetime
import functools
import zoneinfo

ZONES = [
    "UTC", "Asia/Jerusalem", "America/New_York", "Australia/Lord_Howe", "Asia/Kathmandu",
    "Pacific/Kiritimati", "Pacific/Pago_Pago", "America/St_Johns", "Pacific/Chatham", "Europe/London",
]
YEAR = 2024  # a leap year


@functools.lru_cache(None)
def zi(name):
    return zoneinfo.ZoneInfo(name)


@functools.lru_cache(None)
def transition_days(zone, year=YEAR):
    """Local dates in `year` on which the UTC offset changes."""
    z = zi(zone)
    out = []
    d = datetime.date(year, 1, 1)
    prev = datetime.datetime(d.year, d.month, d.day, 0, 0, tzinfo=z).utcoffset()
    while d.year == year:
        nxt = d + datetime.timedelta(days=1)
        off = datetime.datetime(nxt.year, nxt.month, nxt.day, 0, 0, tzinfo=z).utcoffset()
        if off != prev:
            out.append(d)
        prev = off
        d = nxt
    return out


@functools.lru_cache(None)
def dates_for(zone, tier="quick"):
    ds = {datetime.date(YEAR, 7, 15), datetime.date(YEAR, 12, 31), datetime.date(YEAR, 2, 29), datetime.date(YEAR, 1, 1)}
    for t in transition_days(zone):
        ds.update({t - datetime.timedelta(days=1), t, t + datetime.timedelta(days=1)})
    # beyond the signed 32-bit epoch (19 Jan 2038 03:14:08 UTC) and near the end of the unsigned one (7 Feb 2106)
    ds.update({datetime.date(2038, 1, 19), datetime.date(2038, 1, 20), datetime.date(2040, 2, 29), datetime.date(2099, 12, 31), datetime.date(2106, 2, 5)})
    if tier == "thorough":
        ds.update({datetime.date(YEAR, 3, 1), datetime.date(YEAR + 1, 1, 1), datetime.date(2038, 1, 18), datetime.date(1999, 12, 31), datetime.date(YEAR, 10, 6)})
        for t in transition_days(zone, YEAR + 1):
            ds.add(t)
    return sorted(ds)


def local_to_epochs(zone, date, h, m, s=0):
    """Set of epoch seconds whose local time in `zone` is date h:m:s (0, 1 or 2 elements)."""
    z = zi(zone)
    res = set()
    for fold in (0, 1):
        dt = datetime.datetime(date.year, date.month, date.day, h, m, s, tzinfo=z, fold=fold)
        ts = int(dt.timestamp())
        back = datetime.datetime.fromtimestamp(ts, z)
        if (back.date(), back.hour, back.minute, back.second) == (date, h, m, s):
            res.add(ts)
    return res


def epoch_at(zone, date, h, m, s=0):
    """One epoch second at (or just after a gap containing) local date h:m:s."""
    e = local_to_epochs(zone, date, h, m, s)
    if e:
        return min(e)
    z = zi(zone)
    return int(datetime.datetime(date.year, date.month, date.day, h, m, s, tzinfo=z).timestamp())


def local_hm(zone, epoch):
    dt = datetime.datetime.fromtimestamp(epoch, zi(zone))
    return "%02d:%02d" % (dt.hour, dt.minute)


def local_date(zone, epoch):
    return datetime.datetime.fromtimestamp(epoch, zi(zone)).date()


def local_weekday(zone, epoch):
    return datetime.datetime.fromtimestamp(epoch, zi(zone)).weekday()
