"""Reference layout of every frame the client may write (client -> device).

Independent of the library's templates: frames are assembled here byte by byte with struct.
`encode(op, **fields)` returns the complete signed frame the protocol prescribes; `diff(a, b)`
explains where two frames differ in terms of the layout; `decode_header` reads the common header.

Common 40-byte header
    0-1   fe f0                 magic
    2-3   total length, little-endian 16 bit (header + body + 4 signature bytes)
    4-5   protocol family       02 32 (type 1)   03 05 (type 2)
    6-7   command class         a1 00 login1, a6 00 login2, 01 03 get-state, 01 02 control, 02 02 set-name,
                                01 0e thermostat status update
    8-11  session id            (zero in login frames)
    12-15 request format        34 00 01 00 type 1; 39 00 01 00 type-2 state; 00 00 01 00 thermostat;
                                ff 03 01 00 login2; 23 23 01 00 shutter stop; 29 04 01 00 shutter position
    16-23 zero
    24-27 timestamp, little-endian 32-bit epoch seconds
    28-37 zero
    38-39 f0 fe                 header terminator
Body
    login1:  key(1) + 37 zero
    login2:  device id(3) + 00
    state:   device id(3) + 00
    others:  device id(3) + 36 zero + operation payload (see PAYLOAD below)

Six of these layouts are pinned by signed literals in the repository's tests (login1, get-state 1,
control on/off/timer, auto-off; set-name and get-schedules have literals too); the rest are a
transcription of the pinned tree and therefore a regression oracle for their fixed bytes.
"""
from __future__ import annotations

import struct

from . import crc

T1 = b"\x02\x32"
T2 = b"\x03\x05"
RF_T1 = b"\x34\x00\x01\x00"
RF_T2_STATE = b"\x39\x00\x01\x00"
RF_BREEZE = b"\x00\x00\x01\x00"
RF_LOGIN2 = b"\xff\x03\x01\x00"
RF_STOP = b"\x23\x23\x01\x00"
RF_POS = b"\x29\x04\x01\x00"
Z36 = bytes(36)

# op -> (family, class, request format)
HEADERS = {
    "login1": (T1, b"\xa1\x00", RF_T1),
    "login2": (T2, b"\xa6\x00", RF_LOGIN2),
    "get_state1": (T1, b"\x01\x03", RF_T1),
    "get_state2": (T2, b"\x01\x03", RF_T2_STATE),
    "control": (T1, b"\x01\x02", RF_T1),
    "auto_off": (T1, b"\x01\x02", RF_T1),
    "set_name": (T1, b"\x02\x02", RF_T1),
    "get_schedules": (T1, b"\x01\x02", RF_T1),
    "delete_schedule": (T1, b"\x01\x02", RF_T1),
    "create_schedule": (T1, b"\x01\x02", RF_T1),
    "stop": (T2, b"\x01\x02", RF_STOP),
    "set_position": (T2, b"\x01\x02", RF_POS),
    "breeze_command": (T2, b"\x01\x02", RF_BREEZE),
    "breeze_update": (T2, b"\x01\x0e", RF_BREEZE),
}


def header(op, total_len, session: bytes, ts: int) -> bytes:
    fam, cls, rf = HEADERS[op]
    return (
        b"\xfe\xf0"
        + struct.pack("<H", total_len & 0xFFFF)
        + fam
        + cls
        + session
        + rf
        + bytes(8)
        + struct.pack("<I", ts & 0xFFFFFFFF)
        + bytes(10)
        + b"\xf0\xfe"
    )


def body(op, f) -> bytes:
    did = f.get("device_id", b"")
    if op == "login1":
        return bytes([f["key"]]) + bytes(37)
    if op == "login2":
        return did + b"\x00"
    if op in ("get_state1", "get_state2"):
        return did + b"\x00"
    pre = did + Z36
    if op == "control":
        return pre + b"\x00\x01\x06\x00" + bytes([1 if f["on"] else 0]) + b"\x00" + struct.pack("<I", f["timer_s"])
    if op == "auto_off":
        return pre + b"\x00\x04\x04\x00" + struct.pack("<I", f["seconds"])
    if op == "set_name":
        nm = f["name"].encode("utf-8")
        return pre + b"\x00" + nm + bytes(32 - len(nm))
    if op == "get_schedules":
        return pre + b"\x00\x06\x00\x00"
    if op == "delete_schedule":
        return pre + b"\x00\x08\x01\x00" + bytes([f["slot"]])
    if op == "create_schedule":
        rec = b"\x01" + bytes([f["mask"]]) + b"\x01" + struct.pack("<I", f["start"]) + struct.pack("<I", f["end"])
        return pre + b"\x00\x03\x0c\x00\xff" + rec
    if op == "stop":
        return pre + b"\x37\x02\x02\x00\x00\x00"
    if op == "set_position":
        return pre + b"\x37\x01\x01\x00" + bytes([f["position"]])
    if op == "breeze_command":
        payload = bytes(4) + f["ir_text"].encode("ascii")
        return pre + b"\x37\x01" + struct.pack("<H", len(payload)) + payload
    if op == "breeze_update":
        return (
            pre
            + b"\x37\x01\x00\x03\x0b\x04\x00"
            + bytes([f["state"], f["mode"], f["target"], (f["fan"] << 4) | f["swing"]])
        )
    raise KeyError(op)


def encode(op, session=bytes(4), ts=0, **f) -> bytes:
    """Complete signed frame for `op`."""
    b = body(op, f)
    total = 40 + len(b) + 4
    unsigned = header(op, total, session, ts) + b
    return unsigned + crc.signature(unsigned)


def wellformed(frame: bytes):
    """C01's predicate; returns a list of (clause, detail) it fails (empty = well formed)."""
    bad = []
    n = len(frame)
    if n < 44:
        bad.append(("too-short", f"{n} bytes"))
        return bad
    if frame[0:2] != b"\xfe\xf0":
        bad.append(("magic", frame[0:2].hex()))
    if struct.unpack("<H", frame[2:4])[0] != n:
        bad.append(("length-field", f"bytes 2-3 = {frame[2:4].hex()} (= {struct.unpack('<H', frame[2:4])[0]}), frame is {n} bytes"))
    if frame[38:40] != b"\xf0\xfe":
        bad.append(("terminator", frame[38:40].hex()))
    if frame[-4:] != crc.signature(frame[:-4]):
        bad.append(("signature", f"{frame[-4:].hex()} != {crc.signature(frame[:-4]).hex()}"))
    return bad


def decode_header(frame: bytes):
    return {
        "magic": frame[0:2],
        "length": struct.unpack("<H", frame[2:4])[0] if len(frame) >= 4 else None,
        "family": frame[4:6],
        "class": frame[6:8],
        "session": frame[8:12],
        "reqfmt": frame[12:16],
        "ts": struct.unpack("<I", frame[24:28])[0] if len(frame) >= 28 else None,
        "terminator": frame[38:40],
    }


def classify(frame: bytes):
    """Best-effort operation name of a frame (for diagnostics and the C03 session model)."""
    if len(frame) < 44:
        return "runt"
    h = decode_header(frame)
    key = (h["family"], h["class"], h["reqfmt"])
    b = frame[40:-4]
    if key == (T1, b"\xa1\x00", RF_T1):
        return "login1"
    if key == (T2, b"\xa6\x00", RF_LOGIN2):
        return "login2"
    if key == (T1, b"\x01\x03", RF_T1):
        return "get_state1"
    if key == (T2, b"\x01\x03", RF_T2_STATE):
        return "get_state2"
    if key == (T1, b"\x02\x02", RF_T1):
        return "set_name"
    if key == (T2, b"\x01\x02", RF_STOP):
        return "stop"
    if key == (T2, b"\x01\x02", RF_POS):
        return "set_position"
    if key == (T2, b"\x01\x0e", RF_BREEZE):
        return "breeze_update"
    if key == (T2, b"\x01\x02", RF_BREEZE):
        return "breeze_command"
    if key == (T1, b"\x01\x02", RF_T1) and len(b) >= 43:
        code = b[39:43]
        return {
            b"\x00\x01\x06\x00": "control",
            b"\x00\x04\x04\x00": "auto_off",
            b"\x00\x06\x00\x00": "get_schedules",
            b"\x00\x08\x01\x00": "delete_schedule",
            b"\x00\x03\x0c\x00": "create_schedule",
        }.get(code, "unknown-type1-command")
    return "unknown"


FIELD_MAP = [
    (0, 2, "magic"), (2, 4, "length"), (4, 6, "family"), (6, 8, "class"), (8, 12, "session"),
    (12, 16, "request-format"), (16, 24, "zero16"), (24, 28, "timestamp"), (28, 38, "zero28"),
    (38, 40, "terminator"),
]


def where(offset, n):
    for lo, hi, nm in FIELD_MAP:
        if lo <= offset < hi:
            return nm
    if offset >= n - 4:
        return "signature"
    return f"body+{offset - 40}"


def diff(expected: bytes, observed: bytes, ignore=()):
    """First difference between two frames as text, or None. `ignore` is a set of field names."""
    if len(expected) != len(observed):
        if "length" in ignore and "signature" in ignore and len(expected) == len(observed):
            pass
        else:
            return f"frame is {len(observed)} bytes, expected {len(expected)} (observed {observed.hex()[:120]}..)"
    n = len(expected)
    for i in range(n):
        if expected[i] != observed[i]:
            w = where(i, n)
            if w in ignore:
                continue
            return f"byte {i} ({w}) is {observed[i]:02x}, expected {expected[i]:02x}"
    return None
