"""Reference encoders/decoders for device -> client replies (login, state, shutter, thermostat, schedules).

Templates are real replies from tests/testresources (copied here as literals so the oracle does not
move with the tree); fields are placed at the protocol's byte offsets:

  login reply       session id at bytes 8..11
  type-1 state      75 state | 77-78 watts LE16 | 89-92 time left LE32 | 93-96 time on | 97-100 auto-off
  shutter state     76 position | 78-79 direction (00 00 stop, 01 00 up, 00 01 down)
  thermostat state  76-77 temperature tenths LE16 | 78 power | 79 mode | 80 target | 81 fan<<4|swing |
                    84-91 remote id (ASCII, zero padded)
  schedules         records of 16 bytes from byte 45, 4 trailing signature bytes:
                    id | enabled | day mask | state | start LE32 | end LE32 | 4 unused
"""
import struct

from . import crc

LOGIN_T = bytes.fromhex("fef02c000400a60000000000ff03021100000000000000005d65966200000000000000000000f0fe1c8a48fa")
GENERIC_T = bytes.fromhex("fef0300004000102000000000000020000000000000000008d6a966200000000000000000000f0fe01000000f5c7f750")
STATE1_T = bytes.fromhex("00" * 81 + "5726b9c0" + "00" * 12 + "302a0000" + "0102" + "4b38af38")
BREEZE_T = bytes.fromhex(
    "fef06d000400010300000000390002000000000000000000c266966200000000000000000000f0fe"
    "537769746368657220427265657a655f35363739000000000000000000000000"
    "031e00011901000218000007454c45433730323200000000570000000000000002190044d5"
)
SHUTTER_T = bytes.fromhex(
    "fef0640004020103000000003900020000000000000000001489966200000000000000000000f0fe"
    "53776974636865722052756e5f31453432000000000000000000000000000000"
    "031500053200000001010000000000000000000000000000db4c3741"
)
SCHED_PREFIX = bytes(45)
SCHED_TAIL = bytes.fromhex("c76bd3cb")

DIRS = {"stop": b"\x00\x00", "up": b"\x01\x00", "down": b"\x00\x01"}
MODES = {"auto": 1, "dry": 2, "fan": 3, "cool": 4, "heat": 5}
FANS = {"auto": 0, "low": 1, "medium": 2, "high": 3}


def _resign(b: bytearray) -> bytes:
    b[-4:] = crc.signature(bytes(b[:-4]))
    return bytes(b)


def login(session: bytes, ts: int = 0) -> bytes:
    b = bytearray(LOGIN_T)
    b[8:12] = session
    if ts:
        b[24:28] = struct.pack("<I", ts)
    return _resign(b)


def generic(session: bytes = bytes(4)) -> bytes:
    b = bytearray(GENERIC_T)
    b[8:12] = session
    return _resign(b)


def state1(on: bool, watts: int, time_left: int, time_on: int, auto_off: int) -> bytes:
    b = bytearray(STATE1_T)
    b[0:2] = b"\xfe\xf0"
    b[2:4] = struct.pack("<H", len(b))
    b[38:40] = b"\xf0\xfe"
    b[75] = 1 if on else 0
    b[77:81] = struct.pack("<I", watts)
    b[89:93] = struct.pack("<I", time_left)
    b[93:97] = struct.pack("<I", time_on)
    b[97:101] = struct.pack("<I", auto_off)
    b[101:103] = b"\x01\x02"
    return _resign(b)


def shutter(position: int, direction: str) -> bytes:
    b = bytearray(SHUTTER_T)
    b[76] = position
    b[78:80] = DIRS[direction]
    return _resign(b)


def thermostat(on: bool, mode: str, fan: str, swing: bool, temp_tenths: int, target: int, remote: str) -> bytes:
    b = bytearray(BREEZE_T)
    b[76:78] = struct.pack("<H", temp_tenths)
    b[78] = 1 if on else 0
    b[79] = MODES[mode]
    b[80] = target
    b[81] = (FANS[fan] << 4) | (1 if swing else 0)
    rid = remote.encode("ascii")
    b[84:92] = rid + bytes(8 - len(rid))
    return _resign(b)


def schedule_record(slot: int, mask: int, start: int, end: int, enabled: int = 1, state: int = 1, tail: bytes = b"\xce\x0e\x00\x00") -> bytes:
    return bytes([slot, enabled, mask, state]) + struct.pack("<I", start) + struct.pack("<I", end) + tail


def schedules(records, poke=()) -> bytes:
    b = bytearray(SCHED_PREFIX + b"".join(records) + SCHED_TAIL)
    b[0:2] = b"\xfe\xf0"
    b[2:4] = struct.pack("<H", len(b))
    b[38:40] = b"\xf0\xfe"
    for off, val in poke:  # header / reserved bytes before the records (offsets < 45)
        b[off] = val
    return _resign(b)


def hms(seconds: int) -> str:
    return "%02d:%02d:%02d" % (seconds // 3600, seconds // 60 % 60, seconds % 60)


def amps_ok(amps, watts) -> bool:
    """amps = watts/220 to one decimal (tie-breaking not judged)."""
    return isinstance(amps, float) and abs(amps - watts / 220.0) <= 0.05 + 1e-9 and abs(amps * 10 - round(amps * 10)) < 1e-6


def selftest():
    # the captures decode, under the offsets above, to what the repository's tests assert / what is legible
    assert len(STATE1_T) == 107 and STATE1_T[75] == 0 and struct.unpack("<I", STATE1_T[97:101])[0] == 10800  # OFF, auto-off 03:00:00
    # tests/testresources/test_api_messages/test_the_state_message_parser_device_off.txt: OFF, 01:30:00, 0 W
    off = bytes.fromhex("00" * 82 + "b71b65" + "00" * 12 + "18150000" + "0102" + "e8620000")
    assert len(off) == 107 and off[75] == 0 and struct.unpack("<I", off[97:101])[0] == 5400 and off[77:79] == b"\0\0"
    assert BREEZE_T[84:92] == b"ELEC7022" and BREEZE_T[80] == 24 and struct.unpack("<H", BREEZE_T[76:78])[0] == 281
    assert SHUTTER_T[76] == 50 and SHUTTER_T[78:80] == b"\x00\x00"
    assert BREEZE_T[40:60] == b"Switcher Breeze_5679" and SHUTTER_T[40:57] == b"Switcher Run_1E42"
    assert thermostat(False, "dry", "auto", False, 281, 24, "ELEC7022")[:-4] == BREEZE_T[:-4]
    assert shutter(50, "stop")[:-4] == SHUTTER_T[:-4]
    # tests/testresources/test_schedule_parser: two records (ids 0 and 1) after a 45-byte prefix
    two = bytes.fromhex("00" * 45 + "0001fc01e871a35cf87fa35cce0e0000" + "01010201e06aa35cf078a35cce0e0000" + "00000000")
    assert len(two) == 81
    assert two[45:61] == schedule_record(0, 0xFC, 0x5CA371E8, 0x5CA37FF8)
    assert two[61:77] == schedule_record(1, 0x02, 0x5CA36AE0, 0x5CA378F0)
