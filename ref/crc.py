"""Reference CRC-16/CCITT (poly 0x1021) with initial value 0x1021 and the two-stage signature.

Written from the definition (bit by bit); the table-driven step used for the 16.8 M transition
sweep is derived from the bitwise step and cross-checked against it by selftest().
"""

POLY = 0x1021
INIT = 0x1021


def step_bitwise(state: int, byte: int) -> int:
    state ^= byte << 8
    for _ in range(8):
        if state & 0x8000:
            state = ((state << 1) ^ POLY) & 0xFFFF
        else:
            state = (state << 1) & 0xFFFF
    return state


TABLE = [step_bitwise(0, b) for b in range(256)]


def step(state: int, byte: int) -> int:
    return ((state << 8) & 0xFFFF) ^ TABLE[(state >> 8) ^ byte]


def crc(data: bytes, init: int = INIT) -> int:
    s = init
    for b in data:
        s = ((s << 8) & 0xFFFF) ^ TABLE[(s >> 8) ^ b]
    return s


def crc_bitwise(data: bytes, init: int = INIT) -> int:
    s = init
    for b in data:
        s = step_bitwise(s, b)
    return s


def key_stage(crc1: int) -> int:
    return crc(bytes((crc1 & 0xFF, crc1 >> 8)) + b"\x30" * 32)




def signature_from_crc(crc1: int) -> bytes:
    c2 = key_stage(crc1)
    return bytes((crc1 & 0xFF, crc1 >> 8, c2 & 0xFF, c2 >> 8))


def signature(data: bytes) -> bytes:
    """The four signature bytes the protocol appends to `data`."""
    return signature_from_crc(crc(data))


def selftest():
    # table-driven step == bitwise step on every state for a spread of bytes, and every byte on a spread of states
    for s in range(65536):
        for b in (0, 1, 0x30, 0x7F, 0x80, 0xFF, s & 0xFF):
            assert step(s, b) == step_bitwise(s, b), (s, b)
    for s in (0, 1, 0x1021, 0x8000, 0xFFFF, 0x1234):
        for b in range(256):
            assert step(s, b) == step_bitwise(s, b), (s, b)
    # signed literals pinned by the repository's own tests (tests/test_api_packet_crc_signing.py)
    for hx, sig in SIGNED_LITERALS:
        assert signature(bytes.fromhex(hx)).hex() == sig, hx
    # first-stage CRC of messages captured from real devices (tests/testresources): the device
    # signs with its own key, so only the first two signature bytes are comparable
    for hx in DEVICE_CAPTURES:
        b = bytes.fromhex(hx)
        c = crc(b[:-4])
        assert bytes((c & 0xFF, c >> 8)) == b[-4:-2], hx
    # CRC-16/XMODEM check value: crc("123456789", init 0) == 0x31C3
    assert crc(b"123456789", 0) == 0x31C3
    assert crc_bitwise(b"123456789", 0) == 0x31C3


_H = "340001000000000000000000ef8db35c00000000000000000000f0fe"
_Z = "00" * 36
SIGNED_LITERALS = [
    ("fef052000232a10000000000" + _H + "18" + _Z + "00", "6ddd0cc0"),
    ("fef030000232010301000000" + _H + "a123bc00", "42a9a1b2"),
    ("fef05d000232010201000000" + _H + "a123bc" + _Z + "00010600010000000000", "cc06bb10"),
    ("fef05d000232010201000000" + _H + "a123bc" + _Z + "00010600000000000000", "6c432cf4"),
    ("fef05d000232010201000000" + _H + "a123bc" + _Z + "00010600010018150000", "3b30141e"),
    ("fef05b000232010201000000" + _H + "a123bc" + _Z + "0004040018150000", "3bb1ca55"),
]
DEVICE_CAPTURES = [
    "fef02c000400a60000000000ff03021100000000000000005d65966200000000000000000000f0fe1c8a48fa",
    "fef0300004000102000000000000020000000000000000008d6a966200000000000000000000f0fe01000000f5c7f750",
    "fef038000402010200000000290402000000000000000000b987966200000000000000000000f0fe01000800180001000101000080dca3c0",
    "fef0380004020102000000002323020000000000000000007086966200000000000000000000f0fe020008001800000001010000aaf9e8cc",
]
