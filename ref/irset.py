"""Generated IR code sets and the reference key-selection model (C15, C16).

Every generated wave carries its own key in its text (`Para` = "P." + key, `HexCode` = "H." + key,
optionally padded), so a payload on the wire reveals which stored entry was chosen.

Key grammar of the vendor database:
    off                              power-off code of non-toggle remotes
    [on_] aa|ad|aw [_fN] [_d1]       auto / dry / fan modes
    [on_] ar|ah TT [_fN] [_d1]       cool / heat with a two-digit temperature
    FUN_d0 | FUN_d1                  separate swing command of the listed remotes
"""
from __future__ import annotations

MODE_CODE = {"auto": "aa", "dry": "ad", "fan": "aw", "cool": "ar", "heat": "ah"}
TEMP_MODES = ("cool", "heat")
FAN_CODE = {"auto": "f0", "low": "f1", "medium": "f2", "high": "f3"}
SPECIAL_SWING_IDS = ("ELEC7022", "ZM079055", "ZM079065", "ZM079049")


def wave(key, pad=0):
    return {"Key": key, "Para": "P." + key, "HexCode": "H." + key + "x" * pad}


def text_of(key, pad=0):
    return "P." + key + "|" + "H." + key + "x" * pad


def key_of_text(text: str):
    """Recover the key from an IR text built by wave(); None if it is not one of ours."""
    if "|" not in text:
        return None
    para, hexcode = text.split("|", 1)
    if not para.startswith("P.") or not hexcode.startswith("H."):
        return None
    key = para[2:]
    rest = hexcode[2:]
    if not rest.startswith(key) or rest[len(key):].strip("x"):
        return None
    return key


def make_set(remote_id="ELEC7001", toggle=False, modes=("auto", "dry", "fan", "cool", "heat"),
             tmin=16, tmax=30, coverage=("base", "fan", "swing"), on_coverage=None, fans=("auto", "low", "medium", "high"),
             with_off=True, with_fun=None, pad=0, odd_coverage=None, distractors=False, order="asc"):
    """Build an IR set dict.

    coverage: which key shapes exist for plain keys: 'base' (mode[+temp]), 'fan' (+_fN), 'swing' (+_fN_d1).
    on_coverage: same for `on_`-prefixed keys (toggle sets); None = same as coverage when toggle else nothing.
    distractors: also store `<stem>_d1` (swing without fan level) entries, which no request may ever select.
    order: "asc" lists the entries in generation order (temperatures ascending), "desc" in reverse, "rot" starts in the
           middle of that list - the order in which a vendor file lists its entries carries no meaning.
    odd_coverage: if given, odd temperatures (and the dry/fan modes) use this coverage instead - a set whose
                  key coverage is not uniform across temperatures and modes.
    """
    waves = []
    if on_coverage is None:
        on_coverage = coverage if toggle else ()
    for prefix, cov in (("", coverage), ("on_", on_coverage)):
        for m in modes:
            stems = [(MODE_CODE[m] + "%02d" % t, t % 2 == 1) for t in range(tmin, tmax + 1)] if m in TEMP_MODES else [(MODE_CODE[m], m in ("dry", "fan"))]
            for stem, odd in stems:
                c = odd_coverage if (odd and odd_coverage is not None and cov) else cov
                if distractors:
                    # keys that exist in the set but are never a candidate for any request: swing without a fan level
                    waves.append(wave(prefix + stem + "_d1", pad))
                if "base" in c:
                    waves.append(wave(prefix + stem, pad))
                for f in fans:
                    if "fan" in c:
                        waves.append(wave(prefix + stem + "_" + FAN_CODE[f], pad))
                    if "swing" in c:
                        waves.append(wave(prefix + stem + "_" + FAN_CODE[f] + "_d1", pad))
    if with_off and not toggle:
        waves.append(wave("off", pad))
    if with_fun is None:
        with_fun = remote_id in SPECIAL_SWING_IDS
    if with_fun:
        waves.append(wave("FUN_d0", pad))
        waves.append(wave("FUN_d1", pad))
    if order == "desc":
        waves.reverse()
    elif order == "rot":
        k = len(waves) // 2
        waves = waves[k:] + waves[:k]
    return {"IRSetID": remote_id, "OnOffType": 1 if toggle else 0, "IRWaveList": waves}


def keys_of(ir_set):
    return {w["Key"] for w in ir_set["IRWaveList"]}


def capabilities(ir_set):
    """What the set supports, read off its keys."""
    keys = keys_of(ir_set)
    modes = set()
    temps = []
    for k in keys:
        for m, c in MODE_CODE.items():
            if k.startswith(c):
                modes.add(m)
                if m in TEMP_MODES and k[2:4].isdigit():
                    temps.append(int(k[2:4]))
    return {
        "modes": modes,
        "tmin": min(temps) if temps else None,
        "tmax": max(temps) if temps else None,
        "toggle": ir_set["OnOffType"] == 1,
        "separate_swing": ir_set["IRSetID"] in SPECIAL_SWING_IDS,
    }


def select(ir_set, state_on: bool, mode: str, temp: int, fan: str, swing_on: bool, previous_on):
    """Reference selection.

    Returns ("key", key) | ("unsupported-mode", sorted modes) | ("no-entry", candidates).
    previous_on: True/False/None (unknown).
    """
    caps = capabilities(ir_set)
    keys = keys_of(ir_set)
    toggle = caps["toggle"]
    if caps["tmin"] is not None:
        temp = max(caps["tmin"], min(caps["tmax"], temp))
    unsupported = mode not in caps["modes"]
    if unsupported:
        # "an unsupported mode is refused" - unconditionally, also for a plain power-off on a non-toggle remote
        return ("unsupported-mode", sorted(caps["modes"]))
    if not toggle and not state_on:
        return ("key", "off") if "off" in keys else ("no-entry", ["off"])
    prefix = "on_" if (toggle and previous_on is not None and previous_on != state_on) else ""
    stem = MODE_CODE[mode] + (str(temp) if mode in TEMP_MODES else "")
    cands = []
    if swing_on:
        cands.append(prefix + stem + "_" + FAN_CODE[fan] + "_d1")
    cands.append(prefix + stem + "_" + FAN_CODE[fan])
    cands.append(prefix + stem)
    for c in cands:
        if c in keys:
            return ("key", c)
    return ("no-entry", cands)
