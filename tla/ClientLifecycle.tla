---------------------------- MODULE ClientLifecycle ----------------------------
(* Lifecycle of the TCP client (property C18) over what is observable: the `connected` flag, whether a
   connection was ever accepted (`live`: there is a device end to look at) and whether the device dropped
   it.  Every edge of the reachable state graph is replayed against the real client by props/c18.py.   *)
VARIABLES connected, live, dropped
vars == <<connected, live, dropped>>

Init == connected = FALSE /\ live = FALSE /\ dropped = FALSE

Connect     == connected' = TRUE /\ live' = TRUE /\ dropped' = FALSE
Refused     == ~connected /\ UNCHANGED vars          \* raises OSError, still disconnected
Operation   == connected /\ UNCHANGED vars           \* succeeds or raises; the session stays
Context     == connected' = FALSE /\ live' = TRUE /\ dropped' = FALSE   \* async with, body returns or raises
CtxRefused  == ~connected /\ UNCHANGED vars
Drop        == live /\ ~dropped /\ dropped' = TRUE /\ UNCHANGED <<connected, live>>
Disconnect  == connected' = FALSE /\ UNCHANGED <<live, dropped>>

Next == Connect \/ Refused \/ Operation \/ Context \/ CtxRefused \/ Drop \/ Disconnect
Spec == Init /\ [][Next]_vars

TypeOK == connected \in BOOLEAN /\ live \in BOOLEAN /\ dropped \in BOOLEAN
ConnectedNeedsConnection == connected => live
=============================================================================
