CONSTANT Ports = {0, 1}
INIT Init
NEXT Next
INVARIANT TypeOK
INVARIANT RunningIffListening
INVARIANT NothingShared
