---------------------------- MODULE BridgeLifecycle ----------------------------
(* Lifecycle of the UDP bridge (property C17), as a state machine over what a user can observe:
   the running flag, the set of configured ports the bridge listens on, and the set of configured
   ports taken by someone else.  Every edge of the reachable state graph is replayed against the
   real SwitcherBridge on real sockets by props/c17.py (part "tla").                              *)
EXTENDS FiniteSets
CONSTANT Ports
VARIABLES running, listening, occupied
vars == <<running, listening, occupied>>

Init == running = FALSE /\ listening = {} /\ occupied = {}

CanStart == listening = {} /\ occupied = {}

StartOk   == CanStart /\ running' = TRUE /\ listening' = Ports /\ UNCHANGED occupied
StartFail == ~CanStart /\ UNCHANGED vars            \* raises OSError; nothing changes
Stop      == running' = FALSE /\ listening' = {} /\ UNCHANGED occupied
CtxOk     == CanStart /\ UNCHANGED vars             \* async with: start, body, stop
CtxFail   == ~CanStart /\ UNCHANGED vars            \* async with: start raises, body never runs
Occupy(p)  == p \notin listening /\ p \notin occupied
              /\ occupied' = occupied \cup {p} /\ UNCHANGED <<running, listening>>
Release(p) == p \in occupied
              /\ occupied' = occupied \ {p} /\ UNCHANGED <<running, listening>>

Next == StartOk \/ StartFail \/ Stop \/ CtxOk \/ CtxFail
        \/ \E p \in Ports : Occupy(p) \/ Release(p)

Spec == Init /\ [][Next]_vars

TypeOK == running \in BOOLEAN /\ listening \subseteq Ports /\ occupied \subseteq Ports
\* the bridge reports running exactly while it listens on all configured ports, and listens on none otherwise
RunningIffListening == /\ (running <=> listening = Ports)
                       /\ (~running => listening = {})
NothingShared == listening \cap occupied = {}
=============================================================================
