INIT Init
NEXT Next
INVARIANT TypeOK
INVARIANT ConnectedNeedsConnection
