"""C12 - weekday sets and their one-byte mask are a bijection.

Space (finite, enumerated completely in both tiers):
  encode: 7 single Days; all 127 non-empty subsets as set / sorted list / reversed tuple /
          frozenset-free forms; all 399 sequences of length <= 3 as list and tuple (reject iff a
          day repeats); empty set / list / tuple (reject).
  decode: every integer mask -1..256 and 1000.
  round trip: decode(int(encode(S),16)) == S for all 127 S; encode(decode(m)) == m for even m.
Oracle: bit arithmetic (Monday 0x02 .. Sunday 0x80), written here without the library's tables.
"""
from itertools import combinations, product

from mc.core import optimized_job as core_optimized_job, run_optimized as core_run_optimized, Res

ID = "C12"
LEVEL = "exploration"
RULE = (
    "complete enumeration: 7 single days + 127 subsets x 3 container forms + 399 sequences of "
    "length<=3 x 2 forms + 3 empty containers through weekdays_to_hexadecimal; masks -1..256,1000 "
    "through bit_summary_to_days; round trips both ways. A case is non-trivial when the library "
    "call returned or raised on a distinct (form, argument); all are distinct by construction."
)
ASSUMPTIONS = [
    "accepted input forms: a Days member, set, frozenset, list, tuple, deque (a set or a sequence), positionally or as days=...",
    "odd masks inside 2..254 (stray bit 0) are not judged: the statement neither accepts nor rejects them",
    "'rejected' means the call raises an Exception (class not judged)",
]

NAMES = ["MONDAY", "TUESDAY", "WEDNESDAY", "THURSDAY", "FRIDAY", "SATURDAY", "SUNDAY"]


def _days():
    from aioswitcher.schedule import Days

    return [getattr(Days, n) for n in NAMES]


def ref_mask(idx):
    m = 0
    for i in set(idx):
        m |= 1 << (i + 1)
    return m


def jobs(tier, seed):
    return core_optimized_job([{"part": "encode"}, {"part": "decode"}, {"part": "enum"}])


def _enc_case(res, form, idx):
    """form in single/set/list/tuple; idx a sequence of day indexes 0..6."""
    from aioswitcher.schedule import tools

    D = _days()
    case = {"op": "encode", "form": form, "idx": list(idx)}
    import collections

    if form == "single":
        arg = D[idx[0]]
    elif form in ("set", "set-kw"):
        arg = {D[i] for i in idx}
    elif form == "frozenset":
        arg = frozenset(D[i] for i in idx)
    elif form == "list":
        arg = [D[i] for i in idx]
    elif form == "deque":
        arg = collections.deque(D[i] for i in idx)
    else:
        arg = tuple(D[i] for i in idx)
    dup = form in ("list", "tuple", "deque") and len(set(idx)) != len(idx)
    must_reject = dup or len(idx) == 0
    try:
        out = tools.weekdays_to_hexadecimal(days=arg) if form == "set-kw" else tools.weekdays_to_hexadecimal(arg)
        raised = None
    except Exception as exc:  # noqa: BLE001
        out, raised = None, type(exc).__name__
    res.case(("enc", form, tuple(idx)))
    res.outcome(("enc", out, raised))
    if must_reject:
        if raised is None:
            res.violation(
                "encode-accepts-" + ("duplicates" if dup else "empty"), case,
                f"weekdays_to_hexadecimal({form} {list(idx)}) returned {out!r}, must be rejected",
                "raise", out)
        return
    exp = "%02x" % ref_mask(idx)
    if raised is not None:
        res.violation("encode-rejects-valid", case,
                      f"weekdays_to_hexadecimal({form} {list(idx)}) raised {raised}", exp, raised)
    elif out != exp:
        res.violation("encode-wrong-mask", case,
                      f"weekdays_to_hexadecimal({form} {list(idx)}) = {out!r}, expected {exp!r}", exp, out)
    else:
        if form in ("set", "set-kw") and arg != {D[i] for i in idx}:
            res.violation("encode-mutates-argument", case, f"weekdays_to_hexadecimal changed the set it was given: {arg!r}")
        # decode what was encoded: must give back the same set
        try:
            back = tools.bit_summary_to_days(int(out, 16))
            ok = back == {D[i] for i in idx} and isinstance(back, (set, frozenset))
        except Exception as exc:  # noqa: BLE001
            back, ok = type(exc).__name__, False
        if not ok:
            res.violation("roundtrip-encode-decode", case,
                          f"decode(encode({list(idx)})) = {back!r}", sorted(set(idx)), repr(back))


def _dec_case(res, mask):
    from aioswitcher.schedule import tools

    D = _days()
    case = {"op": "decode", "mask": mask}
    try:
        out = tools.bit_summary_to_days(mask)
        raised = None
    except Exception as exc:  # noqa: BLE001
        out, raised = None, type(exc).__name__
    res.case(("dec", mask))
    res.outcome(("dec", None if out is None else tuple(sorted(d.name for d in out)), raised))
    if not 2 <= mask <= 254:
        if raised is None:
            res.violation("decode-accepts-out-of-range", case,
                          f"bit_summary_to_days({mask}) returned {out!r}, must be rejected", "raise", repr(out))
        return
    if mask & 1:
        res.counters["odd_masks_not_judged"] += 1
        return
    exp = {D[i] for i in range(7) if mask & (1 << (i + 1))}
    if raised is not None:
        res.violation("decode-rejects-valid", case, f"bit_summary_to_days({mask}) raised {raised}",
                      sorted(d.name for d in exp), raised)
    elif out != exp:
        res.violation("decode-wrong-set", case,
                      f"bit_summary_to_days({mask}) = {sorted(d.name for d in out)}",
                      sorted(d.name for d in exp), sorted(d.name for d in out))
    else:
        try:
            again = tools.weekdays_to_hexadecimal(out)
        except Exception as exc:  # noqa: BLE001
            again = type(exc).__name__
        if again != "%02x" % mask:
            res.violation("roundtrip-decode-encode", case, f"encode(decode({mask})) = {again!r}",
                          "%02x" % mask, again)
        # what a caller does with its result must not change what the next caller gets
        if not hasattr(out, "symmetric_difference_update"):
            return  # an immutable result cannot be disturbed by its caller
        try:
            out.symmetric_difference_update(set(D))
            out2 = tools.bit_summary_to_days(mask)
        except Exception as exc:  # noqa: BLE001
            out2 = type(exc).__name__
        if out2 != exp:
            res.violation("decode-depends-on-earlier-caller", case,
                          f"bit_summary_to_days({mask}) after an earlier caller modified its own result: "
                          f"{sorted(d.name for d in out2) if isinstance(out2, (set, frozenset)) else out2}",
                          sorted(d.name for d in exp), repr(out2))


def _enum_case(res, i):
    D = _days()
    d = D[i]
    case = {"op": "enum", "day": i}
    res.case(("enum", i))
    exp = 1 << (i + 1)
    obs = (d.bit_rep, d.hex_rep, d.weekday, d.value)
    want = (exp, exp, i, NAMES[i].capitalize())
    res.outcome(obs)
    if obs != want:
        res.violation("days-enum-representation", case, f"Days.{NAMES[i]} has {obs}, expected {want}", want, obs)


def check_case(case, res):
    if case["op"] == "encode":
        _enc_case(res, case["form"], case["idx"])
    elif case["op"] == "decode":
        _dec_case(res, case["mask"])
    else:
        _enum_case(res, case["day"])


def run_job(job):
    if job.get("part") == "optimized":
        r0 = Res()
        core_run_optimized(ID, job.get("tier", "quick"), r0)
        return r0
    res = Res()
    if job["part"] == "encode":
        for i in range(7):
            _enc_case(res, "single", [i])
        for r in range(1, 8):
            for sub in combinations(range(7), r):
                _enc_case(res, "set", list(sub))
                _enc_case(res, "list", list(sub))
                _enc_case(res, "tuple", list(reversed(sub)))
                _enc_case(res, "frozenset", list(sub))
                _enc_case(res, "deque", list(sub))
                _enc_case(res, "set-kw", list(sub))
        for n in (1, 2, 3):
            for seq in product(range(7), repeat=n):
                _enc_case(res, "list", list(seq))
                _enc_case(res, "tuple", list(seq))
        # longer duplicate-bearing sequences: every subset with one element repeated at the end
        for r in range(2, 8):
            for sub in combinations(range(7), r):
                _enc_case(res, "list", list(sub) + [sub[0]])
        for form in ("set", "list", "tuple"):
            _enc_case(res, form, [])
        res.sample({"op": "encode", "form": "tuple", "idx": [6, 2, 0], "expected": "8a"})
    elif job["part"] == "decode":
        for m in list(range(-1, 257)) + [1000]:
            _dec_case(res, m)
        # consecutive repeats: an answer, then the same refusal twice; every mask twice in a row
        for bad in (0, 1, 255, 256, -1, 1000):
            for good in (6, 254, 2):
                _dec_case(res, good)
                _dec_case(res, bad)
                _dec_case(res, bad)
        for m in range(0, 256):
            _dec_case(res, m)
            _dec_case(res, m)
        res.sample({"op": "decode", "mask": 0x8A, "expected": ["MONDAY", "WEDNESDAY", "SUNDAY"]})
    else:
        for i in range(7):
            _enum_case(res, i)
        res.sample({"op": "enum", "day": 0, "expected": [2, 2, 0, "Monday"]})
    return res


def replay(case):
    if isinstance(case, dict) and case.get("part") == "optimized":
        r0 = Res()
        core_run_optimized(ID, case.get("tier", "quick"), r0)
        return r0.violations
    res = Res()
    check_case(case, res)
    return res.violations


def finalize(merged, tier, seed):
    return {"exhaustive": True, "space": "all subsets/forms/sequences<=3/masks as stated in rule"}
