"""C14 - a schedule's duration is (end - start) modulo 24 hours.

Space: all 1440 x 1440 (start, end) pairs through calc_duration (both tiers: the whole space
costs a few seconds on 16 workers), plus, for every start and the ends {start-1, start,
start+1, 00:00, 23:59, start+720}, the `duration` field of a constructed SwitcherSchedule.
Oracle: modular arithmetic on minutes, formatted H:MM:SS.
"""
from mc.core import Res

ID = "C14"
LEVEL = "exploration"
RULE = (
    "complete enumeration of all 1440x1440 HH:MM pairs through calc_duration, split into 48 jobs of "
    "30 start minutes; plus 6 end-times per start through SwitcherSchedule.duration. A pair is "
    "non-trivial when calc_duration returned a value (every pair is distinct by construction)."
)
ASSUMPTIONS = ["inputs are zero-padded HH:MM strings (the form the library's own decoder emits)"]


def hm(m):
    return "%02d:%02d" % divmod(m, 60)


def ref_duration(s, e):
    d = (e - s) % 1440
    return "%d:%02d:00" % divmod(d, 60)


def jobs(tier, seed):
    return [{"lo": lo, "hi": lo + 30} for lo in range(0, 1440, 30)]


def _pair(res, s, e, via):
    case = {"start": s, "end": e, "via": via}
    exp = ref_duration(s, e)
    try:
        if via == "calc":
            from aioswitcher.schedule.tools import calc_duration

            out = calc_duration(hm(s), hm(e))
        else:
            from aioswitcher.schedule.parser import SwitcherSchedule

            out = SwitcherSchedule("0", False, set(), hm(s), hm(e)).duration
    except Exception as exc:  # noqa: BLE001
        res.case(None, nontrivial=False)
        res.violation(f"duration-raises:{via}", case, f"{via} duration {hm(s)}->{hm(e)} raised {type(exc).__name__}: {exc}", exp, repr(exc))
        return
    res.case((via, s, e))
    if out != exp:
        kind = "wrap" if e < s else ("equal" if e == s else "forward")
        res.violation(f"duration-wrong:{via}:{kind}", case, f"{via} duration {hm(s)}->{hm(e)} = {out!r}, expected {exp!r}", exp, out)
    return out


def run_job(job):
    from aioswitcher.schedule.tools import calc_duration

    res = Res()
    for s in range(job["lo"], job["hi"]):
        hs = hm(s)
        for e in range(1440):
            # inlined fast path of _pair(..., "calc")
            exp = "%d:%02d:00" % divmod((e - s) % 1440, 60)
            try:
                out = calc_duration(hs, hm(e))
            except Exception:  # noqa: BLE001
                out = None
            if out != exp:
                _pair(res, s, e, "calc")
            else:
                res.evals += 1
                res.keys.add((s << 11) | e)
                if e % 97 == 0:
                    res.outcome(out)
        for e in {(s - 1) % 1440, s, (s + 1) % 1440, 0, 1439, (s + 720) % 1440}:
            res.outcome(_pair(res, s, e, "schedule"))
    res.sample({"start": hm(job["lo"]), "end": hm((job["lo"] - 1) % 1440), "expected": ref_duration(job["lo"], (job["lo"] - 1) % 1440)})
    return res


def replay(case):
    res = Res()
    _pair(res, case["start"], case["end"], case["via"])
    return res.violations


def finalize(merged, tier, seed):
    return {"exhaustive": True, "space": "1440x1440 pairs via calc_duration + 1440x6 via SwitcherSchedule"}
