"""C14 - a schedule's duration is (end - start) modulo 24 hours.

Space: all 1440 x 1440 (start, end) pairs through calc_duration (both tiers: the whole space
costs a few seconds on 16 workers), plus, for every start and the ends {start-1, start,
start+1, 00:00, 23:59, start+720}, the `duration` field of a constructed SwitcherSchedule.
The same function is also run with the host in zones with DST (and odd offsets) on offset-change days under a
pinned clock: the duration of a pair of clock times must not depend on the zone or on today's date.
Oracle: modular arithmetic on minutes, formatted H:MM:SS.
"""
from mc.core import optimized_job as core_optimized_job, run_optimized as core_run_optimized, Res

ID = "C14"
LEVEL = "exploration"
RULE = (
    "complete enumeration of all 1440x1440 HH:MM pairs through calc_duration, split into 48 jobs of "
    "30 start minutes; plus 6 end-times per start through SwitcherSchedule.duration. A pair is "
    "non-trivial when calc_duration returned a value (every pair is distinct by construction)."
)
ASSUMPTIONS = ["inputs are zero-padded HH:MM strings (the form the library's own decoder emits)"]


def hm(m):
    return "%02d:%02d" % divmod(m, 60)


def ref_duration(s, e):
    d = (e - s) % 1440
    return "%d:%02d:00" % divmod(d, 60)


ZONE_DAYS = [("Europe/London", "2024-03-31"), ("Europe/London", "2024-10-27"), ("America/New_York", "2024-03-10"), ("America/New_York", "2024-11-03"),
             ("Australia/Lord_Howe", "2024-10-06"), ("Australia/Lord_Howe", "2024-04-07"), ("Asia/Kathmandu", "2024-07-15"), ("Pacific/Kiritimati", "2024-12-31"),
             # corners of the calendar: leap day, the days around it, year end and start, and beyond 2038
             ("UTC", "2024-02-29"), ("UTC", "2024-02-28"), ("UTC", "2024-03-01"), ("UTC", "2023-12-31"), ("UTC", "2024-01-01"), ("UTC", "2028-02-29"),
             ("UTC", "2038-01-19"), ("UTC", "2100-02-28"), ("America/New_York", "2024-02-29")]


def jobs(tier, seed):
    js = [{"lo": lo, "hi": lo + 30} for lo in range(0, 1440, 30)]
    for z, d in ZONE_DAYS:
        js.append({"zone": z, "date": d, "tier": tier})
    return core_optimized_job(js)


def _pair(res, s, e, via, zone=None, date=None):
    case = {"start": s, "end": e, "via": via}
    if zone:
        case.update(zone=zone, date=date)
    exp = ref_duration(s, e)
    try:
        if via == "calc":
            from aioswitcher.schedule.tools import calc_duration

            out = calc_duration(hm(s), hm(e))
        else:
            from aioswitcher.schedule.parser import SwitcherSchedule

            out = SwitcherSchedule("0", False, set(), hm(s), hm(e)).duration
    except Exception as exc:  # noqa: BLE001
        res.case(None, nontrivial=False)
        res.violation(f"duration-raises:{via}", case, f"{via} duration {hm(s)}->{hm(e)} raised {type(exc).__name__}: {exc}", exp, repr(exc))
        return
    res.case((via, s, e, zone, date))
    if out != exp:
        kind = "wrap" if e < s else ("equal" if e == s else "forward")
        res.violation(f"duration-wrong:{via}:{kind}" + (":zone" if zone else ""), case, f"{via} duration {hm(s)}->{hm(e)} = {out!r}, expected {exp!r}" + (f" (host zone {zone}, today {date})" if zone else ""), exp, out)
    return out


def zone_job(job, res):
    """The duration of a pair must not depend on the host's zone or on today's date (offset-change days included)."""
    import datetime

    from mc.world import Clock, set_zone
    from ref import zones as Z

    zone, date = job["zone"], datetime.date.fromisoformat(job["date"])
    set_zone(zone)
    try:
        with Clock(float(Z.epoch_at(zone, date, 12, 0, 0))):
            step = 1 if job["tier"] == "thorough" else 7
            for s in range(0, 1440, step):
                for e in sorted({(s - 1) % 1440, s, (s + 1) % 1440, 0, 59, 60, 119, 120, 121, 179, 180, 181, 719, 1439, (s + 720) % 1440, (s + 150) % 1440}):
                    _pair(res, s, e, "calc", zone=zone, date=job["date"])
                for e in (0, 180, (s + 61) % 1440):
                    _pair(res, s, e, "schedule", zone=zone, date=job["date"])
    finally:
        set_zone("UTC")
    res.sample({"zone": zone, "date": job["date"], "start": "00:30", "end": "03:00", "expected": "2:30:00"})
    return res


def run_job(job):
    if job.get("part") == "optimized":
        r0 = Res()
        core_run_optimized(ID, job.get("tier", "quick"), r0)
        return r0
    from aioswitcher.schedule.tools import calc_duration

    res = Res()
    if "zone" in job:
        return zone_job(job, res)
    from mc.world import Clock, set_zone

    set_zone("UTC")
    with Clock(1_700_000_000.0 + 86400.0 * (job["lo"] // 30 % 3) * 8):  # pinned: 14, 22, 30 November 2023 (a month's last day too)
        return _all_pairs(job, res, calc_duration)


def _all_pairs(job, res, calc_duration):
    for s in range(job["lo"], job["hi"]):
        hs = hm(s)
        for e in range(1440):
            # inlined fast path of _pair(..., "calc")
            exp = "%d:%02d:00" % divmod((e - s) % 1440, 60)
            try:
                out = calc_duration(hs, hm(e))
            except Exception:  # noqa: BLE001
                out = None
            if out != exp:
                _pair(res, s, e, "calc")
            else:
                res.evals += 1
                res.keys.add((s << 11) | e)
                if e % 97 == 0:
                    res.outcome(out)
        for e in {(s - 1) % 1440, s, (s + 1) % 1440, 0, 1439, (s + 720) % 1440}:
            res.outcome(_pair(res, s, e, "schedule"))
    res.sample({"start": hm(job["lo"]), "end": hm((job["lo"] - 1) % 1440), "expected": ref_duration(job["lo"], (job["lo"] - 1) % 1440)})
    return res


def replay(case):
    if isinstance(case, dict) and case.get("part") == "optimized":
        r0 = Res()
        core_run_optimized(ID, case.get("tier", "quick"), r0)
        return r0.violations
    res = Res()
    if case.get("zone"):
        import datetime

        from mc.world import Clock, set_zone
        from ref import zones as Z

        set_zone(case["zone"])
        try:
            with Clock(float(Z.epoch_at(case["zone"], datetime.date.fromisoformat(case["date"]), 12, 0, 0))):
                _pair(res, case["start"], case["end"], case["via"], zone=case["zone"], date=case["date"])
        finally:
            set_zone("UTC")
        return res.violations
    _pair(res, case["start"], case["end"], case["via"])
    return res.violations


def finalize(merged, tier, seed):
    return {"exhaustive": True, "space": "1440x1440 pairs via calc_duration + 1440x6 via SwitcherSchedule"}
