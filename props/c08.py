"""C08 - state replies are decoded into exactly what the device reported.

Replies are built by the reference encoder (ref/replies.py: real captured replies with fields placed
at the protocol offsets), returned by the fake device to the real get_state / get_shutter_state /
get_breeze_state, and the response object is compared field by field.  Each field is swept over its
whole domain against a base value of the others, plus all pairs of corner values of neighbouring
fields (catches byte-order and off-by-one-offset mistakes an all-zero reply cannot show).
"""
import itertools

from mc.apiworld import ApiWorld
from mc.core import Res
from mc.world import Clock, set_zone
from ref import replies as RP

ID = "C08"
LEVEL = "exploration"
RULE = (
    "per-field complete domains through the real state queries: type-1 state x {time left, time on, auto-off} 0..86399 s, "
    "watts 0..65535; shutter position 0..255 x 3 directions; thermostat power x 5 modes x 4 fans x 2 swings (all 80), "
    "temperature 0..65535 tenths, target 0..255, remote ids of 1..8 characters; login session bytes over all values; "
    "pairwise corner values. quick strides the 16-bit / 86400 domains (boundaries + every 13th/17th value). "
    "non-trivial = the query returned a response object that was compared; distinct by (query, encoded fields)."
)
ASSUMPTIONS = [
    "reply layouts are real captured replies (tests/testresources) with fields placed at the protocol offsets",
    "amps are judged as |amps - watts/220| <= 0.05 with one decimal, not by a tie-breaking rule",
    "enumerant bytes outside the protocol's values are not sent (the statement covers well-formed replies)",
    "bytes of a reply outside the decoded fields (header, session echo, device timestamp, name, reserved) are varied too and must not change what is decoded",
]

T_CORNERS = [0, 1, 59, 60, 255, 256, 3599, 3600, 3601, 65535, 65536, 86399]
W_CORNERS = [0, 1, 219, 220, 255, 256, 1640, 2600, 32767, 32768, 65535]


def strided(n, step, corners):
    return sorted(set(range(0, n, step)) | {c for c in corners if c < n} | {n - 1})


def all_cases(tier, seed=0):
    cs = []
    full = tier == "thorough"
    T = list(range(86400)) if full else strided(86400, 13, T_CORNERS)
    W = list(range(65536)) if full else strided(65536, 17, W_CORNERS)
    base = [dict(on=True, watts=1640, time_left=2700, time_on=2701, auto_off=10800), dict(on=True, watts=2600, time_left=5400, time_on=1799, auto_off=7200),
            dict(on=True, watts=257, time_left=86399, time_on=1, auto_off=3600), dict(on=False, watts=65535, time_left=61, time_on=3661, auto_off=86340)][seed % 4]
    for on in (True, False):
        for t in T:
            if on or t % 5 == 0 or not full:
                cs.append(("get_state", dict(base, on=on, time_left=t)))
    for t in T:
        cs.append(("get_state", dict(base, time_on=t)))
        cs.append(("get_state", dict(base, auto_off=t)))
    for w in W:
        cs.append(("get_state", dict(base, watts=w)))
        if w % 7 == 0:
            cs.append(("get_state", dict(base, watts=w, on=False)))
    for a, b, c in itertools.product(T_CORNERS, repeat=3):
        cs.append(("get_state", dict(base, time_left=a, time_on=b, auto_off=c)))
    for w, a in itertools.product(W_CORNERS, T_CORNERS):
        cs.append(("get_state", dict(base, watts=w, time_left=a, on=(w + a) % 2 == 0)))
    for p in range(256):
        for d in ("stop", "up", "down"):
            cs.append(("get_shutter_state", dict(position=p, direction=d)))
    tb = [dict(on=True, mode="cool", fan="low", swing=False, temp_tenths=281, target=24, remote="ELEC7001"),
          dict(on=False, mode="heat", fan="high", swing=True, temp_tenths=195, target=30, remote="ZM079055"),
          dict(on=True, mode="dry", fan="auto", swing=True, temp_tenths=300, target=16, remote="DLK22")][seed % 3]
    for on, mode, fan, swing in itertools.product((True, False), RP.MODES, RP.FANS, (True, False)):
        for temp, target in ((281, 24), (0, 0), (65535, 255), (256, 16), (255, 30)):
            cs.append(("get_breeze_state", dict(tb, on=on, mode=mode, fan=fan, swing=swing, temp_tenths=temp, target=target)))
    for t in (range(65536) if full else strided(65536, 17, [0, 1, 9, 10, 255, 256, 281, 999, 1000, 32767, 32768])):
        cs.append(("get_breeze_state", dict(tb, temp_tenths=t)))
    for t in range(256):
        cs.append(("get_breeze_state", dict(tb, target=t)))
        cs.append(("get_breeze_state", dict(tb, target=t, temp_tenths=(t * 257) & 0xFFFF, mode="heat", swing=True)))
    rids = ["E", "EL", "ELE", "ELEC", "ELEC7", "ELEC70", "ELEC702", "ELEC7022", "ZM079055", "DLK22", "0", "12345678", "A1", "zm079065", "X_y-9.z", "ELEC70 ", " ELEC70", " ", "A B", "\tX9", "Z\n", "  ZM  "]
    for r in rids:
        cs.append(("get_breeze_state", dict(tb, remote=r)))
        cs.append(("get_breeze_state", dict(tb, remote=r, on=False, mode="auto", fan="high", swing=True)))
    vals = range(256)
    for pos in range(4):
        for v in vals:
            s = bytearray(b"\x11\x22\x33\x44")
            s[pos] = v
            cs.append(("login", dict(session=bytes(s).hex())))
    for s in ("00000000", "ffffffff", "f050834e", "01000000", "00000001", "a1f0fe07", "fef0f0fe", "0a0d2000"):
        cs.append(("login", dict(session=s)))
    cs += poke_cases()
    return cs


def jobs(tier, seed):
    n = 64 if tier == "thorough" else 16
    js = [{"tier": tier, "seed": seed, "i": i, "n": n} for i in range(n)]
    # what a reply says does not depend on the host's zone: the time fields again with the host far from UTC
    for zone in ("Asia/Kathmandu", "America/St_Johns", "Pacific/Kiritimati"):
        js.append({"tier": tier, "seed": seed, "zone": zone})
    return js


def _nm(x):
    return getattr(x, "name", repr(x))


def judge(op, f, out, writes, res, case):
    if op == "login":
        # observable: the session id the very next frame carries, and the login response class itself
        from aioswitcher.api.messages import SwitcherLoginResponse

        exp = f["session"]
        try:
            got = SwitcherLoginResponse(RP.login(bytes.fromhex(exp))).session_id
        except Exception as exc:  # noqa: BLE001
            got = f"raised {type(exc).__name__}"
        if got != exp:
            res.violation("login-session-bytes", case, f"login reply with session {exp} parsed as {got}", exp, got)
            return False
        if len(writes) != 2 or writes[1][8:12].hex() != exp:
            res.violation("login-session-not-used", case, f"command frame carries session {writes[1][8:12].hex() if len(writes) > 1 else None}, device issued {exp}", exp, None)
            return False
        return True
    if out[0] != "ok":
        res.violation(f"well-formed-reply-rejected:{op}", case, f"{op} on reply {f} -> {out[0]} {out[1]!r}", "response", repr(out[1]))
        return False
    r = out[1]
    if op == "get_state":
        exp = {"state": "ON" if f["on"] else "OFF", "time_left": RP.hms(f["time_left"]), "time_on": RP.hms(f["time_on"]),
               "auto_shutdown": RP.hms(f["auto_off"]), "power_consumption": f["watts"]}
        got = {"state": _nm(r.state), "time_left": r.time_left, "time_on": r.time_on, "auto_shutdown": r.auto_shutdown,
               "power_consumption": r.power_consumption}
        amps = r.electric_current
        if not RP.amps_ok(amps, f["watts"]):
            res.violation("field:electric_current", case, f"{f['watts']} W reported as {amps!r} A", round(f["watts"] / 220, 1), amps)
            return False
    elif op == "get_shutter_state":
        exp = {"position": f["position"], "direction": {"stop": "SHUTTER_STOP", "up": "SHUTTER_UP", "down": "SHUTTER_DOWN"}[f["direction"]]}
        got = {"position": r.position, "direction": _nm(r.direction)}
    else:
        exp = {"state": "ON" if f["on"] else "OFF", "mode": f["mode"].upper(), "fan_level": f["fan"].upper(), "swing": "ON" if f["swing"] else "OFF",
               "temperature": f["temp_tenths"] / 10, "target_temperature": f["target"], "remote_id": f["remote"]}
        got = {"state": _nm(r.state), "mode": _nm(r.mode), "fan_level": _nm(r.fan_level), "swing": _nm(r.swing),
               "temperature": r.temperature, "target_temperature": r.target_temperature, "remote_id": r.remote_id}
        if isinstance(got["temperature"], (int, float)) and abs(got["temperature"] - exp["temperature"]) < 1e-9:
            got["temperature"] = exp["temperature"]
    ok = True
    for k in exp:
        if got[k] != exp[k] or not isinstance(got[k], type(exp[k])) or (type(exp[k]) is int and isinstance(got[k], bool)):
            res.violation(f"field:{k}", case, f"{op}: device encoded {k}={exp[k]!r}, response says {got[k]!r} (reply fields {f})", exp[k], got[k])
            ok = False
    if r.unparsed_response is None or not r.successful:
        res.violation("not-successful", case, f"{op}: parsed response not flagged successful")
        ok = False
    return ok


MODELLED = {"get_state": {75, 77, 78} | set(range(89, 101)), "get_breeze_state": {76, 77, 78, 79, 80, 81} | set(range(84, 92)), "get_shutter_state": {76, 78, 79}}


def poke_cases():
    """Bytes of a reply that carry no modelled field (header, echo of the session, device timestamp, name, reserved)
    set to other values - one at a time, and the marker pairs f0 fe / fe f0 at every header position: same decode."""
    cs = []
    bases = {"get_state": dict(on=True, watts=1640, time_left=2700, time_on=2701, auto_off=10800),
             "get_breeze_state": dict(on=False, mode="heat", fan="high", swing=True, temp_tenths=195, target=30, remote="ZM079055"),
             "get_shutter_state": dict(position=77, direction="down")}
    for op, f in bases.items():
        n = len(build_reply(op, f))
        for off in range(0, n):
            if off in MODELLED[op]:
                continue
            for v in (0xF0, 0xFE, 0xFF, 0x01, 0x00):
                cs.append((op, dict(f, poke=[[off, v]])))
        for off in range(4, 38):
            if off in MODELLED[op] or off + 1 in MODELLED[op]:
                continue
            cs.append((op, dict(f, poke=[[off, 0xF0], [off + 1, 0xFE]])))
            cs.append((op, dict(f, poke=[[off, 0xFE], [off + 1, 0xF0]])))
    return cs


def build_reply(op, f):
    if "poke" in f:
        g = {k: v for k, v in f.items() if k != "poke"}
        b = bytearray(build_reply(op, g))
        for off, val in f["poke"]:
            b[off] = val
        return bytes(b)
    if op == "get_state":
        return RP.state1(f["on"], f["watts"], f["time_left"], f["time_on"], f["auto_off"])
    if op == "get_shutter_state":
        return RP.shutter(f["position"], f["direction"])
    return RP.thermostat(f["on"], f["mode"], f["fan"], f["swing"], f["temp_tenths"], f["target"], f["remote"])


class Runner:
    def __init__(self, zone="UTC"):
        set_zone(zone)
        self.clock = Clock(1_700_000_000.0)
        self.clock.__enter__()
        self.w = {1: ApiWorld(1), 2: ApiWorld(2)}
        for w in self.w.values():
            assert w.connect()[0] == "ok"

    def run(self, op, f):
        if op == "login":
            w = self.w[1]
            out, writes, rx = w.run_op("get_state", script=[RP.login(bytes.fromhex(f["session"]))])
            return out, writes
        w = self.w[1 if op == "get_state" else 2]
        out, writes, rx = w.run_op(op, script=[Ellipsis, build_reply(op, f)])
        return out, writes

    def close(self):
        for w in self.w.values():
            w.disconnect()
            w.__exit__(None, None, None)
        self.clock.__exit__(None, None, None)


def zone_cases(tier):
    T = sorted(set(range(0, 86400, 997 if tier == "quick" else 61)) | set(T_CORNERS))
    base = dict(on=True, watts=2600, time_left=5400, time_on=1799, auto_off=7200)
    cs = []
    for t in T:
        cs.append(("get_state", dict(base, time_left=t, time_on=(t * 7) % 86400, auto_off=86399 - t)))
    tb = dict(on=True, mode="cool", fan="low", swing=False, temp_tenths=281, target=24, remote="ELEC7001")
    cs += [("get_breeze_state", tb), ("get_shutter_state", dict(position=40, direction="up"))]
    return cs


def run_job(job):
    res = Res()
    if "zone" in job:
        cases = zone_cases(job["tier"])
        run = Runner(job["zone"])
    else:
        cases = all_cases(job["tier"], job.get("seed", 0))[job["i"]::job["n"]]
        run = Runner()
    try:
        for op, f in cases:
            case = {"op": op, "fields": f}
            if "zone" in job:
                case["zone"] = job["zone"]
            out, writes = run.run(op, f)
            ok = judge(op, f, out, writes, res, case)
            res.case((op, f, job.get("zone")), nontrivial=out[0] == "ok")
            if ok:
                res.outcome(op)
            if ok and len(res.samples) < 1 and op != "login":
                res.sample({"query": op, "encoded": f, "reply": build_reply(op, f).hex()})
    finally:
        run.close()
        set_zone("UTC")
    return res


def replay(case):
    res = Res()
    run = Runner(case.get("zone", "UTC"))
    try:
        out, writes = run.run(case["op"], case["fields"])
        judge(case["op"], case["fields"], out, writes, res, case)
    finally:
        run.close()
        set_zone("UTC")
    return res.violations


def selftest():
    RP.selftest()


def finalize(merged, tier, seed):
    return {"exhaustive": True, "space": "per-field domains as in rule; tier " + tier}
