"""C01 - every frame written to a device is self-consistent and correctly signed.

All 16 operation shapes of both APIs run on the real client over a socketpair; every argument of
transport.write during each operation is checked for: magic fe f0, bytes 2-3 = little-endian total
length, f0 fe at 38-39, last four bytes = reference double CRC of everything before; and the bytes
the device received must be exactly the concatenation of those writes.

Enumerated: every operation x {each byte of the device id, the key, each byte of the session id,
each byte of the clock (plus the .5 rounding boundary)} over all 256 values (quick: 24 values),
IR texts of every length 1..2000 through the main and the separate swing command, every name of
mc/apicases.name_domain, the complete argument sweep of C02, and - after a good login - every step of every
operation answered with a truncated / corrupted / empty / over-long reply (frames written on any retry or
follow-up path must be well formed too).
"""
from mc import apicases as A
from mc.apiworld import OPS
from mc.core import Res

ID = "C01"
LEVEL = "exploration"
RULE = (
    "all 16 operation shapes x {each id byte, key, each session byte, each clock byte} over all byte values "
    "(quick: 24 boundary values) + IR text lengths 1..2000 (main and swing command; quick: 1..320, every 7th, 1985..2000) "
    "+ C02's argument sweep. Each case is executed on the real API and every written frame is checked; non-trivial = "
    "at least one frame was written and checked; distinct by (op, args, id, key, session, clock)."
)
ASSUMPTIONS = [
    "only exchanges whose login reply carries a session id (>= 12 bytes) are judged, as the statement says",
    "the socketpair stands in for the TCP connection; StreamWriter/transport are the real asyncio ones",
    "names accepted by the library are those of 2..32 UTF-8 bytes",
]

Q_VALS = sorted({0, 1, 2, 4, 8, 15, 16, 32, 64, 127, 128, 129, 160, 170, 200, 240, 254, 255, 0x30, 0x61, 0x0a, 0x99, 0xf0, 0xfe})


def all_cases(tier, seed):
    base = A.seeded_base(seed)
    vals = list(range(256)) if tier == "thorough" else Q_VALS
    cases = []

    def mk(op, args=None, **over):
        c = {"kind": OPS[op][0], "op": op, "args": args or {}, "id": base["id"], "key": base["key"], "session": None, "now": base["now"], "zone": "UTC"}
        c.update(over)
        return c

    bid = bytes.fromhex(base["id"])
    for op in OPS:
        cases.append(mk(op))
        for pos in range(3):
            for v in vals:
                nid = bytearray(bid)
                nid[pos] = v
                cases.append(mk(op, id=bytes(nid).hex()))
        if OPS[op][0] == 1:
            for v in vals:
                cases.append(mk(op, key="%02x" % v))
        for pos in range(4):
            for v in vals:
                s = bytearray(b"\x5e\x01\x02\x03")
                s[pos] = v
                cases.append(mk(op, session=bytes(s).hex()))
        for s in ("00000000", "ffffffff", "fef0fef0", "f0fef0fe"):
            cases.append(mk(op, session=s))
        for pos in range(4):
            for v in vals:
                t = bytearray((int(base["now"]) & 0xFFFFFFFF).to_bytes(4, "little"))
                t[pos] = v
                cases.append(mk(op, now=float(int.from_bytes(bytes(t), "little"))))
        for frac in (0.49, 0.5, 0.51, 0.999):
            cases.append(mk(op, now=float(int(base["now"])) + frac))
            cases.append(mk(op, now=float(int(base["now"]) + 1) + frac))
        cases.append(mk(op, now=0.0))
        cases.append(mk(op, now=float((1 << 32) - 2)))
    # IR text lengths
    if tier == "thorough":
        lens = range(1, 2001)
    else:
        lens = sorted(set(range(1, 321)) | set(range(321, 2001, 7)) | set(range(1985, 2001)))
    for L in lens:
        cases.append(mk("breeze_main", {"remote": "len", "ir_len": L, "state": "off", "mode": None, "temp": 0, "fan": None, "swing": None}))
        cases.append(mk("breeze_swing", {"remote": "len", "ir_len": L, "state": None, "mode": None, "temp": 0, "fan": None, "swing": "on"}))
        if L % 16 == 1:
            cases.append(mk("breeze_swing", {"remote": "len", "ir_len": L, "state": "off", "mode": None, "temp": 0, "fan": None, "swing": "on"}))
    # thermostat status update over its value space
    for st in ("on", "off"):
        for mode in ("auto", "dry", "fan", "cool", "heat"):
            for temp in ((16, 24, 30, 1, 255) if tier == "quick" else range(0, 256, 5)):
                for fan in ("auto", "low", "medium", "high"):
                    for sw in ("on", "off"):
                        cases.append(mk("breeze_update", {"remote": "plain", "state": st, "mode": mode, "temp": temp, "fan": fan, "swing": sw, "update": True}))
    # the argument sweep of C02
    for kind, op, args in A.arg_cases(tier):
        cases.append(mk(op, args))
    # faulty replies after a good login: whatever the client writes next (retries included) must still be well formed
    from props import c09

    for op in OPS:
        valid = c09.valid_replies(op)
        for step in range(1, len(valid)):
            faults = [("eof",), ("long",), ("half",)] + [("prefix", n) for n in range(1, len(valid[step]), 1 if tier == "thorough" else 3)]
            faults += [("fill", n, b) for n in (1, 4, 12, 44, 48, 107) for b in (0x00, 0xFF)]
            for i in range(0, len(valid[step]), 1 if tier == "thorough" else 4):
                faults.append(("corrupt", i, valid[step][i] ^ 0xFF))
            for f in faults:
                cases.append(mk(op, faults={str(step): list(f)}))
    return cases


def jobs(tier, seed):
    n = 64 if tier == "thorough" else 32
    return [{"tier": tier, "seed": seed, "i": i, "n": n} for i in range(n)]


def _key(case):
    return (case["op"], case["args"], case["id"], case["key"], case["session"], case["now"], case.get("faults"))


def run_job(job):
    res = Res()
    cases = all_cases(job["tier"], job["seed"])[job["i"]::job["n"]]
    run = A.Runner()
    try:
        for case in cases:
            r = run.run(case)
            A.judge_c01(case, r, res)
            res.case(_key(case), nontrivial=bool(r["writes"]))
            res.counters["frames_checked"] += len(r["writes"])
            for w in r["writes"]:
                res.outcome(len(w))
            if len(res.samples) < 1 and len(r["writes"]) > 2:
                res.sample({"case": case, "frames": [w.hex() for w in r["writes"]]})
    finally:
        run.close()
    return res


def replay(case):
    res = Res()
    run = A.Runner()
    try:
        A.judge_c01(case, run.run(case), res)
    finally:
        run.close()
    return res.violations


def finalize(merged, tier, seed):
    return {"exhaustive": True, "space": "as in rule; tier " + tier, "distinct_frame_lengths": len(merged.outcomes)}
