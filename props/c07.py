"""C07 - the bridge delivers each valid broadcast once, in order, whatever else arrives.

Stateless model checking of a running bridge on real UDP sockets with the event loop's selector
under the explorer's control:
  * every sequence of datagrams up to length L over the alphabet {valid water heater, valid plug,
    valid shutter, valid thermostat, verbatim repeat of the previous valid datagram of that port, verbatim echo of the last
    valid datagram of any port, foreign bytes,
    truncated valid frame, valid frame with an undecodable name, unknown model code, corrupted
    magic}, every assignment of the datagrams to the bridge's ports;
  * all datagrams are queued in the kernel first; then every order in which the loop can service the
    ready ports is enumerated (exactly one ready socket is handed to the loop per iteration - a
    datagram transport reads one datagram per readiness event);
  * the user callback raises on chosen invocations (deviation bound: number of raising invocations);
  * a long-lived pass feeds all sequences of a job to one bridge, so deliveries also start from
    non-initial states.
Oracle: per port, the callback log is exactly that port's valid datagrams, each once, in send order,
with the decoded name/type/id; a sentinel broadcast sent to every port afterwards is delivered
(nothing stopped listening); no exception beyond those of raising callbacks / undecodable datagrams.
"""
import itertools

from mc import explorer as X
from mc.bridgeworld import BridgeWorld, CallbackBoom
from mc.core import Res
from mc.world import Capture, Clock, set_zone
from ref import broadcast as B

ID = "C07"
LEVEL = "model_checking"
RULE = (
    "states = distinct (per-port pending queues, deliveries so far) configurations visited; transitions = distinct (state, serviced "
    "port, callback raised?) steps; traces = executions on the real bridge (one per choice sequence). distinct_nontrivial = distinct "
    "(sequence, port assignment, schedule) in which at least two ports held pending datagrams at once or a callback raised."
)
ASSUMPTIONS = [
    "asyncio's selector datagram transport reads one datagram per readiness event, so servicing one ready fd per iteration enumerates exactly the interleavings of the per-port kernel queues",
    "loopback UDP queues are FIFO per socket and lossless at these sizes",
    "a gate-passing datagram with an undecodable name or unknown model must neither deliver nor disturb others (what it logs is C06's subject)",
]

KINDS = ["heater", "plug", "shutter", "thermostat", "repeat", "echo", "foreign", "truncated", "badname", "unknown", "badmagic"]
REDUCED = ["heater", "thermostat", "repeat", "echo", "foreign", "badname"]
TYPE_OF = {"heater": "V4", "plug": "POWER_PLUG", "shutter": "RUNNER", "thermostat": "BREEZE"}


def build_datagrams(seq, assign):
    """-> list of (port index, bytes, expected name or None)"""
    out = []
    last_valid = {}
    for i, (kind, p) in enumerate(zip(seq, assign)):
        name = "p%ds%d" % (p, i)
        if kind in TYPE_OF:
            data = B.encode(TYPE_OF[kind], name=name, device_id="%02x%02x%02x" % (0xA0 + p, i, 0x5C), on=bool(i % 2))
            last_valid[p] = (data, name, i)
            out.append((p, data, name))
        elif kind == "repeat":
            if p in last_valid:
                data, nm = last_valid[p][:2]
            else:
                data, nm = B.encode("V2_ESP", name=name, on=True), name
            last_valid[p] = (data, nm, i)
            out.append((p, data, nm))
        elif kind == "echo":
            # the most recent valid datagram of ANY port, byte for byte (one device heard on two ports)
            if last_valid:
                data, nm = last_valid[max(last_valid, key=lambda q: last_valid[q][2])][:2]
            else:
                data, nm = B.encode("V2_QCA", name=name, on=True), name
            last_valid[p] = (data, nm, i)
            out.append((p, data, nm))
        elif kind == "foreign":
            out.append((p, bytes((7 * j + i) & 0xFF for j in range(100)), None))
        elif kind == "truncated":
            out.append((p, B.encode("V4", name=name)[:-1], None))
        elif kind == "badname":
            d = bytearray(B.encode("TOUCH", name="x"))
            d[42:46] = b"\xff\xfe\xfd\xfc"
            out.append((p, bytes(d), None))
        elif kind == "unknown":
            out.append((p, B.encode("V4", name=name, model_code="7f7f"), None))
        elif kind == "badmagic":
            out.append((p, b"\xfe\xf1" + B.encode("V4", name=name)[2:], None))
        else:
            raise KeyError(kind)
    return out


def _udp_fds(bw):
    """fd -> index of the configured port it is bound to, for every fd registered with the loop's selector
    (found by asking the socket, not by assuming how the bridge created it)."""
    import os
    import socket

    out = {}
    for key in list(bw.loop.ctl.get_map().values()):
        try:
            dup = socket.socket(fileno=os.dup(key.fd))
        except OSError:
            continue
        try:
            if dup.type == socket.SOCK_DGRAM and dup.family == socket.AF_INET:
                port = dup.getsockname()[1]
                if port in bw.ports:
                    out[key.fd] = bw.ports.index(port)
        except OSError:
            pass
        finally:
            dup.close()
    return out


def execute(ch, nports, seq, assign, res, case, raise_bound):
    """One execution on a fresh bridge. Returns (schedule tuple, multi_pending, raised)."""
    set_zone("UTC")
    dgs = build_datagrams(seq, assign)
    raised = []
    with Clock(1_700_000_000.0), Capture() as cap:
        state = {"n": 0}

        def raise_on(n, dev):
            if dev.name.startswith("sentinel"):
                return False
            c = ch.choose(2, "callback-raises")
            if c:
                raised.append(n)
                # what the user's callback raises is the user's business: every kind is just "a failing callback"
                import errno

                kinds = [None, OSError(errno.ENETUNREACH, "Network is unreachable"), ConnectionResetError(errno.ECONNRESET, "reset"), KeyError("x"),
                         OSError(errno.EBADF, "Bad file descriptor"), ValueError("v"), OSError("plain")]
                exc = kinds[(n + len(seq) + sum(assign)) % len(kinds)]
                if exc is not None:
                    raise exc
            return bool(c)

        bw = BridgeWorld(nports, raise_on=raise_on)
        try:
            out = bw.start()
            if out[0] != "ok":
                res.violation("bridge-start-fails", case, f"start: {out}")
                return None
            fd2port = _udp_fds(bw)
            for p, data, _ in dgs:
                bw.send(bw.ports[p], data)
            schedule = []
            multi = [False]
            pending = [sum(1 for q, _, _ in dgs if q == i) for i in range(nports)]

            def chooser(evs):
                mine = [e for e in evs if e[0].fd in fd2port]
                if not mine:
                    return evs
                k = ch.choose(len(mine), "service:" + "".join(str(fd2port[e[0].fd]) for e in mine)) if len(mine) > 1 else 0
                if len(mine) > 1:
                    multi[0] = True
                port = fd2port[mine[k][0].fd]
                st = (tuple(pending), len(bw.calls))
                res.state(st)
                pending[port] -= 1
                res.transition((st, port))
                schedule.append(port)
                return [mine[k]]

            bw.loop.ctl.chooser = chooser
            for _ in range(10 * len(dgs) + 20):
                if not bw.loop.ctl.peek() and not bw.loop._ready:
                    break
                bw.loop.step()
            bw.loop.ctl.chooser = None
            delivered = [d.name for d in bw.calls]
            devices = list(bw.calls)
            # delivery barrier / liveness: a sentinel on every port
            n0 = len(bw.calls)
            for i, p in enumerate(bw.ports):
                bw.send(p, B.encode("MINI", name="sentinel%d" % i, on=True))
            bw.settle()
            sentinels = sorted(d.name for d in bw.calls[n0:])
            ok = True
            if sentinels != ["sentinel%d" % i for i in range(nports)]:
                res.violation("port-stopped-listening", case, f"after {seq} on ports {assign} (service order {schedule}, raised on {raised}): sentinels delivered {sentinels}")
                ok = False
            from collections import Counter

            sent_on = {}
            for p, _, nm in dgs:
                if nm is not None:
                    sent_on.setdefault(nm, set()).add(p)
            shared = {nm for nm, ps in sent_on.items() if len(ps) > 1}  # same bytes sent to two ports: only counted
            want_all = Counter(nm for _, _, nm in dgs if nm is not None)
            got_all = Counter(delivered)
            if want_all != got_all:
                diff = {nm: (want_all[nm], got_all[nm]) for nm in set(want_all) | set(got_all) if want_all[nm] != got_all[nm]}
                kind = "lost" if sum(got_all.values()) < sum(want_all.values()) else "duplicated"
                res.violation(f"delivery-{kind}", case,
                              f"deliveries per datagram (sent, delivered): {diff} (sequence {seq}, ports {assign}, service order {schedule}, callback raised on {raised})", dict(want_all), dict(got_all))
                ok = False
            for i in range(nports):
                want = [nm for p, _, nm in dgs if p == i and nm is not None and nm not in shared]
                got = [nm for nm in delivered if nm.startswith("p%ds" % i) and nm not in shared]
                if ok and got != want:
                    kind = "lost" if len(got) < len(want) else ("duplicated" if len(got) > len(want) else "reordered")
                    res.violation(f"delivery-{kind}", case,
                                  f"port {i}: valid datagrams sent {want}, callback got {got} (sequence {seq}, ports {assign}, service order {schedule}, callback raised on {raised})", want, got)
                    ok = False
            stray = [nm for nm in delivered if not nm.startswith("p")]
            if stray:
                res.violation("delivery-invented", case, f"callback got devices nobody sent: {stray}")
                ok = False
            # decoded content of what was delivered
            by_name = {}
            for p, data, nm in dgs:
                if nm is not None:
                    by_name[nm] = data
            for dev in devices:
                src = by_name.get(dev.name)
                if src is not None and (dev.device_id != src[18:21].hex() or dev.device_type.hex_rep != src[74:76].hex()):
                    res.violation("delivery-wrong-device", case, f"{dev.name}: delivered id {dev.device_id} type {dev.device_type}, sent id {src[18:21].hex()} code {src[74:76].hex()}")
                    ok = False
            # exceptions: at most the raising callbacks and the undecodable datagrams may reach the loop handler
            # (a library that catches and logs them instead is equally fine: nothing here demands that they surface)
            nbad = sum(1 for k in seq if k == "badname")
            excs = [e for e in bw.loop.exc_log]
            if len(excs) > len(raised) + nbad:
                res.violation("unexpected-exception", case, f"{len(excs)} loop exception-handler calls, at most {len(raised)} raising callbacks + {nbad} undecodable datagrams can explain them: {excs}")
                ok = False
            return tuple(schedule), multi[0], tuple(raised)
        finally:
            bw.close()


CB_KINDS = ["method", "function", "lambda", "partial", "temporary-object-method", "callable-object", "list-append"]


def callback_kinds(res):
    """The callback in every shape users write it (the statement says 'the callback', whatever kind of callable it is)."""
    import gc

    set_zone("UTC")
    for kind in CB_KINDS:
        case = {"cb_kind": kind}
        with Clock(1_700_000_000.0), Capture():
            bw = BridgeWorld(2, cb_kind=kind)
            try:
                bw.start()
                gc.collect()
                sent = []
                for i, t in enumerate(("V4", "POWER_PLUG", "RUNNER", "BREEZE", "MINI")):
                    name = "k%d" % i
                    bw.send(bw.ports[i % 2], B.encode(t, name=name))
                    sent.append(name)
                    bw.settle()
                    if i == 1:
                        gc.collect()
                got = sorted(d.name for d in bw.calls)
                res.case(("cb", kind))
                res.traces += 1
                if got != sorted(sent):
                    res.violation("callback-kind-not-served", case, f"callback given as {kind}: sent {sent}, delivered {got}", sent, got)
            finally:
                bw.close()


def dropped_bridge(res):
    """`await SwitcherBridge(callback, ports).start()` in a helper that keeps no reference: the bridge was started and never
    stopped, so it is running - whatever the garbage collector does with the Python object."""
    import gc

    set_zone("UTC")
    case = {"dropped_bridge": True}
    with Clock(1_700_000_000.0), Capture():
        bw = BridgeWorld(2)
        try:
            bw.start()
            bw.send(bw.ports[0], B.encode("V4", name="held"))
            bw.settle()
            bw.bridge = None  # nothing refers to the bridge object any more
            for _ in range(3):
                gc.collect()
                bw.settle()
            sent = ["held"]
            for i, t in enumerate(("POWER_PLUG", "RUNNER", "BREEZE", "MINI")):
                name = "g%d" % i
                bw.send(bw.ports[i % 2], B.encode(t, name=name))
                sent.append(name)
                bw.settle()
                gc.collect()
            got = [d.name for d in bw.calls]
            res.case(("dropped-bridge",))
            res.traces += 1
            if got != sent:
                res.violation("delivery-stops-when-bridge-object-is-dropped", case, f"a started bridge that nothing refers to any more: sent {sent}, delivered {got}", sent, got)
        finally:
            bw.loop.finish()


def failure_runs(res, n):
    """n raising callbacks in a row, and n undecodable datagrams in a row, on one port: 'a bad datagram or a failing callback
    never stops later deliveries' however many there were."""
    set_zone("UTC")
    for what in ("callback", "undecodable", "mixed"):
        case = {"failure_run": what, "n": n}
        with Clock(1_700_000_000.0), Capture():
            bw = BridgeWorld(2, raise_on=lambda k, dev: dev.name.startswith("boom"))
            try:
                bw.start()
                bad = bytearray(B.encode("TOUCH", name="x"))
                bad[42:46] = b"\xff\xfe\xfd\xfc"
                want = []
                for i in range(n):
                    if what == "callback" or (what == "mixed" and i % 2 == 0):
                        name = "boom%d" % i
                        bw.send(bw.ports[0], B.encode("V4", name=name))
                        want.append(name)
                    else:
                        bw.send(bw.ports[0], bytes(bad))
                    bw.settle()
                for i, port in enumerate((0, 1, 0)):
                    name = "after%d" % i
                    bw.send(bw.ports[port], B.encode("MINI", name=name))
                    want.append(name)
                    bw.settle()
                got = [d.name for d in bw.calls]
                res.case(("failure-run", what, n))
                res.traces += 1
                if got != want:
                    res.violation("delivery-stops-after-many-failures", case, f"after {n} consecutive failures ({what}) on one port: delivered {len(got)} of {len(want)} broadcasts; the last ones {got[-3:]}, expected {want[-3:]}", want[-3:], got[-3:])
            finally:
                bw.close()


def default_ports(res):
    """The bridge exactly as most users create it - SwitcherBridge(callback) on the four well-known ports: every family's
    broadcast is delivered from whichever of those ports it arrives on. Skipped (with a note) when a port is taken."""
    import fcntl
    import os

    from aioswitcher.bridge import SwitcherBridge
    from mc.world import new_loop, task_outcome, udp_send

    set_zone("UTC")
    lock = open("/dev/shm/aioswitcher-verif-defaultports.lock" if os.path.isdir("/dev/shm") else "/tmp/aioswitcher-verif-defaultports.lock", "w")
    fcntl.flock(lock, fcntl.LOCK_EX)
    try:
        with Clock(1_700_000_000.0), Capture():
            loop = new_loop()
            calls = []
            try:
                bridge = SwitcherBridge(calls.append)
                out = task_outcome(loop.run_task(bridge.start()))
                if out[0] != "ok":
                    res.notes.append(f"default-ports part skipped: cannot bind the well-known ports here ({out[1]!r})")
                    return
                sent = 0
                for port in (20002, 10002, 20003, 10003):
                    for t in ("V4", "POWER_PLUG", "BREEZE", "RUNNER", "MINI", "RUNNER_MINI"):
                        name = "d%d" % sent
                        n0 = len(calls)
                        udp_send(port, B.encode(t, name=name))
                        loop.settle(2000)
                        got = [d.name for d in calls[n0:]]
                        res.case(("default-port", port, t))
                        res.traces += 1
                        sent += 1
                        if got != [name]:
                            res.violation("default-port-delivery", {"default_ports": True, "port": port, "type": t},
                                          f"SwitcherBridge(callback) on its default ports: a {t} broadcast arriving on port {port} produced callbacks {got}", [name], got)
                loop.run_task(bridge.stop())
            finally:
                loop.finish()
    finally:
        fcntl.flock(lock, fcntl.LOCK_UN)
        lock.close()


# unicast IPv4 senders only: what an AF_INET socket can really report (loopback, the private ranges, link-local, CGNAT, global)
SENDERS = [("127.0.0.1", 5555), ("192.168.1.20", 20002), ("10.0.0.3", 1), ("172.16.5.5", 65535), ("169.254.1.1", 20002),
           ("100.64.0.1", 3), ("8.8.8.8", 20002), ("93.184.216.34", 10002), ("1.1.1.1", 53), ("192.0.2.7", 20003), ("11.22.33.44", 40000)]


def senders(res):
    """Who sent a broadcast is no part of whether it is valid: the same datagram is handed to the port's protocol object
    (the way the event loop hands over what arrives) with every kind of sender address."""
    set_zone("UTC")
    with Clock(1_700_000_000.0), Capture():
        bw = BridgeWorld(2)
        try:
            bw.start()
            protos = [bw.loop.udp_protocols.get(p) for p in bw.ports]
            if any(p is None or not hasattr(p, "datagram_received") for p in protos):
                res.notes.append("senders part skipped: the bridge does not listen through loop.create_datagram_endpoint protocols")
                return
            n = 0
            for addr in SENDERS:
                for pi, proto in enumerate(protos):
                    for t in ("V4", "POWER_PLUG", "BREEZE", "RUNNER", "MINI"):
                        name = "s%d" % n
                        n += 1
                        n0 = len(bw.calls)
                        err = None
                        try:
                            proto.datagram_received(B.encode(t, name=name), addr)
                        except Exception as exc:  # noqa: BLE001
                            err = repr(exc)
                        bw.settle()
                        got = [d.name for d in bw.calls[n0:]]
                        res.case(("sender", addr[0], pi, t))
                        res.traces += 1
                        if got != [name] or err:
                            res.violation("delivery-depends-on-sender", {"senders": True, "addr": list(addr), "port_index": pi, "type": t},
                                          f"a valid {t} broadcast arriving on port #{pi} from {addr} produced callbacks {got}" + (f" and raised {err}" if err else ""), [name], got)
        finally:
            bw.close()


def combos(tier):
    """(nports, seq, assign) triples."""
    out = []
    maxlen = 3
    for n in range(1, maxlen + 1):
        for seq in itertools.product(KINDS, repeat=n):
            nvalid = sum(1 for k in seq if k in TYPE_OF or k == "repeat")
            if tier == "quick" and n == 3 and nvalid < 2:
                continue  # quick keeps the length-3 sequences that can show ordering
            for assign in itertools.product(range(2), repeat=n):
                if assign[0] != 0:
                    continue  # port symmetry: the first datagram goes to port 0
                out.append((2, list(seq), list(assign)))
    if tier == "thorough":
        for seq in itertools.product(REDUCED, repeat=4):
            for assign in itertools.product(range(2), repeat=4):
                if assign[0] == 0:
                    out.append((2, list(seq), list(assign)))
        for seq in itertools.product(REDUCED, repeat=3):
            for assign in itertools.product(range(3), repeat=3):
                if assign[0] == 0:
                    out.append((3, list(seq), list(assign)))
        for assign in itertools.permutations(range(4), 4):
            out.append((4, ["heater", "thermostat", "shutter", "plug"], list(assign)))
    for seq in itertools.product(KINDS, repeat=2):
        out.append((1, list(seq), [0, 0]))
    return out


def raise_bound(tier):
    return 3 if tier == "thorough" else 1


def jobs(tier, seed):
    n = 64 if tier == "thorough" else 16
    return [{"tier": tier, "i": i, "n": n} for i in range(n)] + [{"tier": tier, "long": i, "n": 8} for i in range(8)] + [{"tier": tier, "cbkinds": True}, {"tier": tier, "defaultports": True}, {"tier": tier, "senders": True}, {"tier": tier, "dropped": True}, {"tier": tier, "failruns": True}]


def cost(label, choice):
    return choice if label.startswith("callback") else 0


def run_job(job):
    res = Res()
    tier = job["tier"]
    if "long" in job:
        long_lived(res, job)
        return res
    if "cbkinds" in job:
        callback_kinds(res)
        return res
    if "dropped" in job:
        dropped_bridge(res)
        return res
    if "failruns" in job:
        for n in ((8, 33, 130) if tier == "quick" else (8, 33, 130, 300, 1030)):
            failure_runs(res, n)
        res.sample({"failure_run": "callback", "n": 33, "then": "three valid broadcasts on both ports must be delivered"})
        return res
    if "senders" in job:
        senders(res)
        res.sample({"sender_addresses": [a[0] for a in SENDERS], "each_sends": ["V4", "POWER_PLUG", "BREEZE", "RUNNER", "MINI"], "to_each_of_ports": 2})
        return res
    if "defaultports" in job:
        default_ports(res)
        res.sample({"default_ports": [20002, 10002, 20003, 10003], "each_gets": ["V4", "POWER_PLUG", "BREEZE", "RUNNER", "MINI", "RUNNER_MINI"]})
        return res
    rb = raise_bound(tier)
    diverged = []
    recheck = []  # (nports, seq, assign, choices, observation) of some executions, re-executed at the end
    for nports, seq, assign in combos(tier)[job["i"]::job["n"]]:
        base = {"nports": nports, "seq": seq, "assign": assign}
        scheds = set()

        def run(ch):
            r = Res()
            case = dict(base, choices=None)
            return r, execute(ch, nports, seq, assign, r, case, rb)

        def on_exec(ch, result):
            r, info = result
            for v in r.violations:
                v["case"]["choices"] = ch.choices
            res.merge(r)
            res.traces += 1
            nontrivial = info is not None and (info[1] or bool(info[2]))
            res.case((nports, tuple(seq), tuple(assign), tuple(ch.choices)), nontrivial=nontrivial)
            if info is not None and len(recheck) < 40 and (len(ch.choices) >= 2 or not recheck) and not r.violations:
                recheck.append((nports, seq, assign, list(ch.choices), info))
            if info is not None:
                scheds.add(info[0])
                if info[1]:
                    res.counters["executions_with_two_ports_pending"] += 1
                if info[2]:
                    res.counters["executions_with_raising_callback"] += 1

        n, capped = X.explore(run, on_exec, bound=rb, cost=cost, on_diverge=lambda ch, msg: diverged.append(msg))
        res.counters["sequence_port_assignments"] += 1
        res.outcome(("orders", len(scheds)))
        if len(res.samples) < 1 and len(scheds) >= 3:
            res.sample({"ports": nports, "sequence": seq, "port_of_each": assign, "service_orders_explored": sorted(map(list, scheds))})
    # determinism self-test: re-execute recorded schedules, the observations must be identical
    for nports, seq, assign, choices, info in recheck:
        r2 = Res()
        again = execute(X.Chooser(choices), nports, seq, assign, r2, {"nports": nports, "seq": seq, "assign": assign, "choices": choices}, rb)
        res.counters["schedules_replayed_for_determinism"] += 1
        if again != info and not res.violations:
            diverged.append(f"re-execution of {seq} on {assign} with choices {choices} observed {again}, first run observed {info}")
    res.counters["replay_divergences"] += len(diverged)
    if diverged and not res.violations:
        from mc.core import HarnessError

        raise HarnessError(f"{len(diverged)} replayed prefixes diverged without any oracle violation: {diverged[0]}")
    return res


def long_lived(res, job):
    """One bridge lives through every sequence of the job (default service order, no raising)."""
    set_zone("UTC")
    cs = [c for c in combos(job["tier"]) if c[0] == 2][job["long"]::job["n"]]
    cs = cs[:400]
    case = {"long": job["long"], "n": job["n"], "tier": job["tier"]}
    with Clock(1_700_000_000.0), Capture():
        bw = BridgeWorld(2)
        try:
            bw.start()
            for idx, (nports, seq, assign) in enumerate(cs):
                dgs = build_datagrams(seq, assign)
                n0 = len(bw.calls)
                for p, data, _ in dgs:
                    bw.send(bw.ports[p], data)
                bw.settle()
                got = [d.name for d in bw.calls[n0:]]
                res.traces += 1
                res.case(("long", job["long"], idx), nontrivial=idx > 0)
                from collections import Counter

                sent_on = {}
                for p, _, nm in dgs:
                    if nm is not None:
                        sent_on.setdefault(nm, set()).add(p)
                shared = {nm for nm, ps in sent_on.items() if len(ps) > 1}
                want_all = Counter(nm for _, _, nm in dgs if nm is not None)
                if want_all != Counter(got):
                    res.violation("long-lived-delivery", dict(case, upto=idx), f"bridge that already handled {idx} sequences: sent {dict(want_all)}, delivered {dict(Counter(got))} (sequence {seq} on ports {assign})", dict(want_all), dict(Counter(got)))
                    return
                for i in range(2):
                    want = [nm for p, _, nm in dgs if p == i and nm is not None and nm not in shared]
                    g = [nm for nm in got if nm.startswith("p%ds" % i) and nm not in shared]
                    if g != want:
                        res.violation("long-lived-delivery", dict(case, upto=idx), f"bridge that already handled {idx} sequences: port {i} sent {want}, delivered {g} (sequence {seq} on ports {assign})", want, g)
                        return
        finally:
            bw.close()


def replay(case):
    res = Res()
    if case.get("default_ports"):
        default_ports(res)
        return [v for v in res.violations if v["case"] == case] or res.violations
    if case.get("dropped_bridge"):
        dropped_bridge(res)
        return res.violations
    if case.get("failure_run"):
        failure_runs(res, case["n"])
        return [v for v in res.violations if v["case"] == case] or res.violations
    if case.get("senders"):
        senders(res)
        return [v for v in res.violations if v["case"] == case] or res.violations
    if "cb_kind" in case:
        callback_kinds(res)
        return [v for v in res.violations if v["case"] == case]
    if "long" in case:
        long_lived(res, {"long": case["long"], "n": case["n"], "tier": case["tier"]})
        return res.violations
    ch = X.Chooser(case.get("choices") or [])
    execute(ch, case["nports"], case["seq"], case["assign"], res, case, 99)
    return res.violations


def selftest():
    B.selftest()


def finalize(merged, tier, seed):
    return {
        "exhaustive": True,
        "alphabet": KINDS,
        "max_sequence_length": 4 if tier == "thorough" else 3,
        "raise_bound_completed": raise_bound(tier),
        "space": "all sequences x port assignments x service orders x raising callbacks (<= bound); tier " + tier,
    }
