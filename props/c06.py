"""C06 - only genuine Switcher broadcasts are accepted; anything else is ignored quietly.

Datagrams are sent over loopback UDP to a running bridge, one at a time, and for each one the check
counts callbacks, warnings, loop exception-handler calls and log records of level WARNING or more:
  * every length 0..400 x leading bytes {fe f0, fe 00, f0 fe, fe f1, 00 00, (fill only)} x fills
    {00, ff, bytes of a real capture cyclically};
  * each real capture truncated and extended by 1..3 bytes;
  * every one of the 65,536 two-byte model codes inside otherwise valid frames of each of the three
    accepted lengths (quick: the 9 known codes, all their 1-bit neighbours and a stride).
Oracle: not (magic and length in {165,168,159}) => nothing at all happens; gate passed and unknown
model code => no device, exactly one warning (of any category) saying 'unknown', no exception.
"""
from mc.bridgeworld import BridgeWorld
from mc.core import Res
from mc.world import Capture, Clock, set_zone
from ref import broadcast as B

ID = "C06"
LEVEL = "exploration"
RULE = (
    "lengths 0..400 x 9 leading-byte variants (incl. magic + own length, magic shifted by one byte, magic only later in the frame) x 4 fills (00, ff, 0a, capture bytes); captures +-1..3 bytes; model codes (thorough: all 65,536 x 3 frame "
    "lengths; quick: known codes, their 1-bit neighbours, every 61st) each sent as one real datagram and observed alone. "
    "non-trivial = the datagram reached datagram_received (one loop iteration consumed it) and the four counters were read; "
    "distinct by datagram bytes."
)
ASSUMPTIONS = [
    "frames that pass the gate with a known model code are C05's subject and are not judged here",
    "'quietly' = no callback, no warning, no loop exception-handler call, no log record >= WARNING",
]

LENS_OK = (165, 168, 159)
KNOWN = {v[0] for v in B.TYPES.values()}
LEADS = {"magic": b"\xfe\xf0", "magic-len": None, "shifted": b"\x00\xfe\xf0", "late-magic": b"\x00\x00" + bytes(72) + b"\xfe\xf0", "fe-only": b"\xfe\x00", "swapped": b"\xf0\xfe", "fef1": b"\xfe\xf1", "zeros": b"\x00\x00", "none": b""}
TEMPLATES = {165: B.HEATER_T, 168: B.BREEZE_T, 159: B.RUNNER_T}


def fill_bytes(kind, n):
    if kind == "00":
        return bytes(n)
    if kind == "ff":
        return b"\xff" * n
    if kind == "lf":
        return b"\x0a" * n
    cap = B.HEATER_T
    return (cap * (n // len(cap) + 1))[:n]


def gate(data):
    return data[:2] == b"\xfe\xf0" and len(data) in LENS_OK


def all_cases(tier):
    cs = []
    for n in range(0, 401 if tier == "quick" else 1501):
        for lead in LEADS:
            for fill in ("00", "ff", "lf", "capture"):
                cs.append({"kind": "shape", "n": n, "lead": lead, "fill": fill})
    for L, t in TEMPLATES.items():
        for d in (1, 2, 3):
            cs.append({"kind": "resize", "len": L, "delta": -d})
            cs.append({"kind": "resize", "len": L, "delta": d})
        cs.append({"kind": "resize", "len": L, "delta": 0, "flip_magic": True})
    if True:
        codes = range(65536)  # the whole space costs about a second, so both tiers run it
    else:
        codes = set(range(0, 65536, 61)) | {0, 0xFFFF}
        for k in KNOWN:
            v = int(k, 16)
            codes.add(v)
            for bit in range(16):
                codes.add(v ^ (1 << bit))
        codes = sorted(codes)
    for L in LENS_OK:
        for c in codes:
            cs.append({"kind": "code", "len": L, "code": c})
        # the same unknown code again and again: every one of them must be reported
        for c in (0x0000, 0x7F7F, 0xFFFF, 0x0E02):
            for rep in range(3):
                cs.append({"kind": "code", "len": L, "code": c, "rep": rep})
    return cs


def build(case):
    k = case["kind"]
    if k == "shape":
        n = case["n"]
        lead = LEADS[case["lead"]]
        if lead is None:  # magic followed by the datagram's own length, little-endian (a self-consistent header)
            lead = b"\xfe\xf0" + n.to_bytes(2, "little")
        body = fill_bytes(case["fill"], n)
        return (lead + body[len(lead):])[:n] if n >= len(lead) else lead[:n]
    if k == "resize":
        t = TEMPLATES[case["len"]]
        d = case["delta"]
        data = t[:d] if d < 0 else t + bytes(range(1, d + 1))
        if case.get("flip_magic"):
            data = b"\xfe\xf1" + data[2:]
        return data
    t = bytearray(TEMPLATES[case["len"]])
    t[74:76] = case["code"].to_bytes(2, "big")
    return bytes(t)


def jobs(tier, seed):
    n = 32 if tier == "thorough" else 16
    return [{"tier": tier, "i": i, "n": n} for i in range(n)]


class Runner:
    def __init__(self):
        set_zone("UTC")
        self.clock = Clock(1_700_000_000.0)
        self.clock.__enter__()
        self.cap = Capture()
        self.cap.__enter__()
        self.bw = BridgeWorld(1)
        out = self.bw.start()
        if out[0] != "ok":
            raise RuntimeError(f"bridge did not start: {out}")

    def close(self):
        self.bw.close()
        self.cap.__exit__(None, None, None)
        self.clock.__exit__(None, None, None)

    def one(self, data):
        bw = self.bw
        c0, e0 = len(bw.calls), len(bw.loop.exc_log)
        self.cap.clear()
        steps0 = bw.loop.steps
        bw.send(bw.ports[0], data)
        bw.settle()
        return {
            "callbacks": len(bw.calls) - c0,
            "warnings": self.cap.warnings,
            "loop_exceptions": bw.loop.exc_log[e0:],
            "logs": list(self.cap.logs),
            "consumed": bw.loop.steps > steps0,
        }


def judge(res, case, data, ob):
    desc = f"{case} ({len(data)} bytes, starts {data[:4].hex()})"
    if not gate(data):
        ok = True
        for what, val in (("callback", ob["callbacks"]), ("warning", ob["warnings"]), ("exception", ob["loop_exceptions"]), ("log-record", ob["logs"])):
            if val:
                res.violation(f"not-silent:{what}:{case['kind']}", case, f"{desc} is not a Switcher broadcast but produced {what}: {val}", "nothing", val)
                ok = False
        return ok
    code = data[74:76].hex()
    if code in KNOWN:
        res.counters["gate_passed_known_code_not_judged"] += 1
        return None
    ok = True
    if ob["callbacks"]:
        res.violation("unknown-model-delivers-device", case, f"{desc}: unknown model code {code} produced a device")
        ok = False
    if ob["loop_exceptions"]:
        res.violation("unknown-model-raises", case, f"{desc}: unknown model code {code} raised {ob['loop_exceptions'][0]}", "warning", ob["loop_exceptions"])
        ok = False
    w = [x for x in ob["warnings"] if "unknown" in x[1].lower()]
    if len(w) != 1 or len(ob["warnings"]) != 1:
        res.violation("unknown-model-warning", case, f"{desc}: expected exactly one 'unknown device' warning, got {ob['warnings']}", 1, ob["warnings"])
        ok = False
    return ok


def run_job(job):
    res = Res()
    cases = all_cases(job["tier"])[job["i"]::job["n"]]
    run = Runner()
    try:
        for case in cases:
            data = build(case)
            ob = run.one(data)
            ok = judge(res, case, data, ob)
            res.case(data, nontrivial=ob["consumed"] and ok is not None)
            res.outcome((gate(data), ob["callbacks"], len(ob["warnings"]), len(ob["loop_exceptions"])))
            res.counters["gate_" + ("pass" if gate(data) else "reject")] += 1
        res.sample({"case": {"kind": "code", "len": 168, "code": 0x0E02}, "expected": "no device, one UserWarning 'unknown'"})
        res.sample({"case": {"kind": "shape", "n": 165, "lead": "fef1", "fill": "capture"}, "expected": "nothing"})
    finally:
        run.close()
    return res


def replay(case):
    res = Res()
    run = Runner()
    try:
        data = build(case)
        judge(res, case, data, run.one(data))
    finally:
        run.close()
    return res.violations


def selftest():
    B.selftest()


def finalize(merged, tier, seed):
    return {"exhaustive": True, "space": "lengths x leads x fills, resized captures, model codes; tier " + tier}
