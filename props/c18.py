"""C18 - the TCP client is connected exactly between connect and disconnect.

Model checking of the client lifecycle on the real SwitcherType1Api / SwitcherType2Api:
every sequence of actions up to depth D (quick 4, thorough 5, plus depth 6 over six core actions) over
    connect (accepted) | connect (refused) | operation that succeeds | operation that raises on a
    garbage reply | operation that raises on a bad argument | `async with` whose body succeeds |
    `async with` whose body raises (an Exception, an OSError subclass, a BaseException) | `async with` whose connect is refused | the device drops the
    connection | disconnect
is executed on a fresh controlled loop (socketpair connections), and after every action the
observable state is compared with the lifecycle model:
    connected  <=>  a connect succeeded and no disconnect happened since;
    after disconnect (returning or raising) the device end of the latest connection reads
    end-of-stream and `connected` is false; a refused connect raises OSError and leaves the client
    disconnected; body exceptions propagate; the address asked for is (configured ip, 9957 | 10000,
    AF_INET).
TLA+ conformance: TLC checks tla/ClientLifecycle.tla and dumps its complete state graph; every edge is replayed on
the real client, each model action by every harness action implementing it (3 operations, 4 kinds of context body).
Two client objects in one process (same host address, all three type combinations): every sequence of their
connects, disconnects and operations to depth 4 (5) - one client's actions never change the other's flag or socket.
The same runs feed a state graph over (model state, implementation fingerprint); the check reports
whether the graph closed (every enabled action executed from every state).  A short list of the
explored histories is replayed over real loopback TCP with the stock event loop.
"""
import asyncio
import fcntl
import itertools
import os
import socket

from mc.apiworld import ApiWorld, Device, call, expected_shape
from mc.core import Res, khash
from mc.fingerprint import api_state, modules_digest
from mc.world import Clock, Hang, new_loop, set_zone, task_outcome
from ref import replies as RP

ID = "C18"
LEVEL = "model_checking"
RULE = (
    "states = distinct (lifecycle model state, API object fingerprint, module-state digest); transitions = distinct "
    "(state, action, next state); traces = action sequences executed on the real client (all sequences to the depth, for both "
    "API classes). distinct_nontrivial = distinct sequences containing at least one accepted connect."
)
ASSUMPTIONS = [
    "operations on a client that is not connected are outside the statement: their outcome is not judged (the flag still is)",
    "connect while already connected: only the flag and the newest connection are judged; a refused connect while connected may or may not end the session (flag adopted as observed), the socket is judged at the next disconnect",
    "socketpair stands in for TCP except in the real-TCP subset",
]

ACTIONS = ["connect", "refused", "op_ok", "op_garbage", "op_badarg", "op_abandoned", "ctx_ok", "ctx_raise", "ctx_raise_os", "ctx_raise_conn", "ctx_raise_base", "ctx_refused", "drop", "disconnect"]
PORT = {1: 9957, 2: 10000}


class Boom(Exception):
    pass


class Abort(BaseException):
    """A body failure that is not an Exception (like cancellation or KeyboardInterrupt)."""


BODY_EXC = {"ctx_raise": Boom, "ctx_raise_os": TimeoutError, "ctx_raise_conn": ConnectionResetError, "ctx_raise_base": Abort}


def depth(tier):
    return 5 if tier == "thorough" else 4


# thorough also runs depth 6 over the actions that change or test the connection state
CORE_ACTIONS = ["connect", "refused", "op_ok", "ctx_raise_conn", "drop", "disconnect"]


def enabled(model, a):
    if a == "ctx_refused":
        return not model["connected"]
    if a in ("op_garbage", "op_badarg"):
        return model["connected"]
    if a == "op_abandoned":
        return model["connected"] and not model["dropped"]
    if a == "op_ok":
        return True  # on a client that is not connected the outcome is not judged, the flag is
    if a == "drop":
        return model["live"] and not model["dropped"]
    return True


def model_next(m, a):
    m = dict(m)
    if a == "connect":
        m.update(connected=True, live=True, dropped=False)
    elif a in ("ctx_ok", "ctx_raise", "ctx_raise_os", "ctx_raise_conn", "ctx_raise_base"):
        m.update(connected=False, live=True, dropped=False)
    elif a == "drop":
        m.update(dropped=True)
    elif a == "disconnect":
        m.update(connected=False)
    return m


M0 = {"connected": False, "live": False, "dropped": False}


def sequences(prefix, max_len, acts=None):
    """All enabled action sequences extending `prefix` up to max_len (prefix itself included if enabled)."""
    acts = acts or ACTIONS
    m = dict(M0)
    for a in prefix:
        if not enabled(m, a):
            return
        m = model_next(m, a)

    def rec(seq, m):
        yield seq
        if len(seq) < max_len:
            for a in acts:
                if enabled(m, a):
                    yield from rec(seq + [a], model_next(m, a))

    yield from rec(list(prefix), m)


def bfs(kind, res):
    """Breadth-first search over (model, implementation fingerprint) states to a fixpoint."""
    from collections import deque

    start = []
    seen = {}
    frontier = deque([start])
    case0 = {"part": "seq", "kind": kind, "actions": []}
    r0 = Res()
    fp = history_fingerprint(kind, [], r0)
    seen[khash(fp)] = []
    expansions = 0
    maxdepth = 0
    while frontier:
        hist = frontier.popleft()
        m = dict(M0)
        for a in hist:
            m = model_next(m, a)
        for a in ACTIONS:
            if not enabled(m, a):
                continue
            actions = hist + [a]
            case = {"part": "seq", "kind": kind, "actions": actions}
            run_history(kind, actions, res, case)
            res.traces += 1
            expansions += 1
            fp2 = history_fingerprint(kind, actions, Res())
            k = khash(fp2)
            if k not in seen:
                seen[k] = actions
                frontier.append(actions)
                maxdepth = max(maxdepth, len(actions))
        if len(seen) > 400:
            res.notes.append("BFS stopped at 400 states (state space did not close)")
            return False, len(seen), maxdepth
    res.counters["bfs_expansions"] += expansions
    res.counters["bfs_states_kind%d" % kind] = len(seen)
    return True, len(seen), maxdepth


def history_fingerprint(kind, actions, res):
    set_zone("UTC")
    with Clock(1_700_000_000.0):
        wd = World(kind)
        try:
            for n, a in enumerate(actions):
                wd.step(a, res, {"part": "seq", "kind": kind, "actions": actions}, n)
            return wd.fingerprint()
        finally:
            wd.close()


def op_spec(kind, a):
    if a == "op_ok":
        return ("control_on", {"minutes": 5}, None) if kind == 1 else ("set_position", {"position": 30}, None)
    if a == "op_garbage":
        return ("get_state", {}, [Ellipsis, b"\x01\x02"]) if kind == 1 else ("get_breeze_state", {}, [Ellipsis, b"\x01\x02"])
    if a == "op_abandoned":
        # the device answers the login and then stays silent; the caller gives up (the pending call is cancelled)
        return ("get_state", {}, [Ellipsis, False]) if kind == 1 else ("get_breeze_state", {}, [Ellipsis, False])
    return ("set_device_name", {"name": "x"}, None) if kind == 1 else ("set_position", {"position": "zz"}, None)


class World:
    def __init__(self, kind):
        self.kind = kind
        self.loop = new_loop()
        self.w = ApiWorld(kind, loop=self.loop, device=Device())
        self.refuse_next = False
        self.loop.refuse = lambda n, h, p: self.refuse_next
        self.model = {"connected": False, "live": False, "dropped": False}
        self.live = None

    def close(self):
        self.loop.finish()

    def run(self, coro, responder=None):
        try:
            t = self.loop.run_task(coro, responder)
            return task_outcome(t)
        except Hang:
            return ("hang", None)

    def fingerprint(self):
        m = self.model
        return (m["connected"], m["live"], m["dropped"], api_state(self.w.api), modules_digest())

    def do_op(self, a):
        op, args, script = op_spec(self.kind, a)
        if self.w.conn is None:
            # never connected: there is no device end; the call is still made (its outcome is not judged)
            try:
                coro = call(self.w.api, op, args)
            except Exception as exc:  # noqa: BLE001
                return ("exc", exc)
            return self.run(coro, None)
        self.w.device.begin(expected_shape(op, None), script, None)
        try:
            coro = call(self.w.api, op, args)
        except Exception as exc:  # noqa: BLE001
            return ("exc", exc)
        return self.run(coro, self.w.device.respond)

    def step(self, a, res, case, n):
        """Execute action `a`, update the model, check. Returns False on violation."""
        m = self.model
        api = self.w.api
        tag = f"after action #{n} {a} of {case['actions']}"
        ok = True
        nconn = len(self.loop.conns)
        nlog = len(self.loop.connect_log)
        prev_live = self.live
        if a == "connect":
            self.refuse_next = False
            out = self.run(api.connect())
            if out[0] != "ok":
                res.violation("connect-fails", case, f"{tag}: accepted connect {out[0]} {out[1]!r}")
                ok = False
            m.update(connected=True, live=True, dropped=False)
        elif a == "refused":
            self.refuse_next = True
            out = self.run(api.connect())
            self.refuse_next = False
            if out[0] != "exc" or not isinstance(out[1], OSError):
                res.violation("refused-connect-does-not-raise", case, f"{tag}: refused connect -> {out[0]} {out[1]!r}", "OSError", repr(out[1]))
                ok = False
            if m["connected"] and isinstance(api.connected, bool):
                # a refused connect on a client that is connected: the statement does not say whether the open session
                # survives, so the flag is adopted as observed; the session's socket is still judged at the next disconnect
                m.update(connected=api.connected)
        elif a in ("op_ok", "op_garbage", "op_badarg", "op_abandoned"):
            out = self.do_op(a)
            if not m["connected"]:
                pass  # the session ended in a way the statement leaves open (refused connect while connected): not judged
            elif not m["dropped"]:
                want = {"op_ok": "ok", "op_garbage": "RuntimeError", "op_badarg": "rejected", "op_abandoned": "hang"}[a]
                got = "ok" if out[0] == "ok" else (type(out[1]).__name__ if out[0] == "exc" else out[0])
                if a == "op_badarg" and out[0] == "exc" and isinstance(out[1], Exception):
                    got = "rejected"
                if a == "op_garbage" and out[0] == "exc" and isinstance(out[1], RuntimeError):
                    got = "RuntimeError"
                if got != want:
                    res.violation(f"operation-outcome:{a}", case, f"{tag}: expected {want}, got {got} ({out[1]!r})", want, got)
                    ok = False
            elif out[0] == "hang":
                res.violation("operation-hangs-after-drop", case, f"{tag}: operation on a dropped connection hangs")
                ok = False
        elif a in ("ctx_ok", "ctx_raise", "ctx_raise_os", "ctx_raise_conn", "ctx_raise_base", "ctx_refused"):
            self.refuse_next = a == "ctx_refused"
            seen = {}

            async def body():
                async with api as entered:
                    seen["entered"] = entered
                    seen["connected_inside"] = api.connected
                    if a in BODY_EXC:
                        raise BODY_EXC[a]("body failed")
                    op, args, script = op_spec(self.kind, "op_ok")
                    self.w.device.begin(expected_shape(op, None), None, None)
                    return await call(api, op, args)

            out = self.run(body(), self.w.device.respond)
            self.refuse_next = False
            if a == "ctx_refused":
                if out[0] != "exc" or not isinstance(out[1], OSError):
                    res.violation("refused-connect-does-not-raise", case, f"{tag}: async with on a refusing device -> {out[0]} {out[1]!r}")
                    ok = False
            else:
                if seen.get("entered") is not api or seen.get("connected_inside") is not True:
                    res.violation("context-entry", case, f"{tag}: inside the context connected={seen.get('connected_inside')}, yielded {seen.get('entered')!r}")
                    ok = False
                if a in BODY_EXC and (out[0] != "exc" or type(out[1]) is not BODY_EXC[a]):
                    res.violation("body-exception-swallowed", case, f"{tag}: body raised {BODY_EXC[a].__name__}, caller saw {out[0]} {out[1]!r}", BODY_EXC[a].__name__, repr(out[1]))
                    ok = False
                if a == "ctx_ok" and out[0] != "ok":
                    res.violation("context-body-fails", case, f"{tag}: body {out[0]} {out[1]!r}")
                    ok = False
                m.update(connected=False, live=True, dropped=False)
                self._after_disconnect(res, case, tag, newest=True)
        elif a == "drop":
            self.live.drop()
            self.loop.settle()
            m.update(dropped=True)
        elif a == "disconnect":
            out = self.run(api.disconnect())
            if out[0] == "hang":
                res.violation("disconnect-hangs", case, f"{tag}: disconnect neither finished nor progressed")
                ok = False
            if out[0] == "exc" and not m["dropped"]:
                res.violation("disconnect-raises", case, f"{tag}: disconnect raised {out[1]!r}")
                ok = False
            if out[0] == "exc":
                res.counters["disconnect_raised_after_drop"] += 1
            m.update(connected=False)
            ok = self._after_disconnect(res, case, tag, newest=False) and ok
        # connection bookkeeping
        if len(self.loop.conns) > nconn:
            self.live = self.loop.conns[-1]
            self.w.conn = self.live
        for host, port, fam in self.loop.connect_log[nlog:]:
            if (host, port, fam) != (self.w.ip, PORT[self.kind], socket.AF_INET):
                res.violation("connect-address", case, f"{tag}: asked for {(host, port, fam)}, configured {(self.w.ip, PORT[self.kind], 'AF_INET')}")
                ok = False
        if a in ("ctx_ok", "ctx_raise", "ctx_raise_os", "ctx_raise_conn", "ctx_raise_base"):
            ok = self._after_disconnect(res, case, tag, newest=True) and ok
        try:
            flag = api.connected
        except Exception as exc:  # noqa: BLE001
            flag = repr(exc)
        if flag is not m["connected"]:
            res.violation(f"connected-flag:{'stuck-true' if flag else 'false-while-connected'}:{a}", case,
                          f"{tag}: connected={flag}, the model says {m['connected']}", m["connected"], flag)
            ok = False
        return ok

    def _after_disconnect(self, res, case, tag, newest):
        conn = self.loop.conns[-1] if self.loop.conns else None
        if conn is None:
            return True
        self.loop.settle()
        conn.poll()
        if not (conn.eof or conn.closed):
            res.violation("socket-left-open", case, f"{tag}: the device end of the latest connection did not read end-of-stream")
            return False
        return True


def run_history(kind, actions, res, case, graph=True):
    set_zone("UTC")
    with Clock(1_700_000_000.0):
        wd = World(kind)
        try:
            st = wd.fingerprint()
            if graph:
                res.state(st)
            executed = []
            for n, a in enumerate(actions):
                if not enabled(wd.model, a):
                    return executed, False
                ok = wd.step(a, res, case, n)
                executed.append(a)
                if graph:
                    st2 = wd.fingerprint()
                    res.state(st2)
                    res.transition((st, a, st2))
                    res.add("state_action", (kind, khash(st), a))
                    res.add("state_enabled", (kind, khash(st2)) + tuple(x for x in ACTIONS if enabled(wd.model, x)))
                    st = st2
                if not ok:
                    return executed, True
            return executed, True
        finally:
            wd.close()


def cancelled_disconnect(res, kind, pre, k):
    """disconnect() is abandoned by its caller (cancelled / timed out) after k event-loop iterations. Whatever it had done by
    then, the flag must agree with the socket: once the device has seen end-of-stream the client is not connected. A
    complete disconnect afterwards leaves flag False and the socket closed, and the client can connect again."""
    case = {"part": "canceldisconnect", "kind": kind, "pre": list(pre), "k": k,
            "actions": list(pre) + [f"disconnect cancelled after {k} loop iterations", "disconnect", "connect", "disconnect"]}
    set_zone("UTC")
    with Clock(1_700_000_000.0):
        wd = World(kind)
        try:
            for n, a in enumerate(pre):
                if not wd.step(a, res, case, n):
                    return None
            task = wd.loop.create_task(wd.w.api.disconnect())
            for _ in range(k):
                wd.loop.step()
            task.cancel()
            wd.loop.settle()
            if not task.done():
                res.violation("cancelled-disconnect-hangs", case, f"disconnect cancelled after {k} loop iterations never finished")
                return None
            out = task_outcome(task)
            conn = wd.loop.conns[-1]
            conn.poll()
            ended = bool(conn.eof or conn.closed)
            flag = wd.w.api.connected
            tag = f"after disconnect was cancelled after {k} loop iterations ({out[0]}) following {list(pre)}"
            if ended and flag is not False:
                res.violation("connected-flag:stuck-true:cancelled-disconnect", case, f"{tag}: the device has seen end-of-stream, yet connected={flag}", False, flag)
                return out[0]
            if out[0] == "ok" and flag is not False:
                res.violation("connected-flag:stuck-true:disconnect", case, f"{tag}: disconnect completed, connected={flag}", False, flag)
                return out[0]
            wd.model.update(connected=bool(flag))
            for n, a in enumerate(["disconnect", "connect", "disconnect"]):
                if not wd.step(a, res, case, len(pre) + 1 + n):
                    break
            return out[0]
        finally:
            wd.close()


TWO_LOOP_PRE = (["connect", "disconnect"], ["connect", "op_ok", "disconnect"], ["ctx_ok"], ["ctx_raise"], ["refused"], ["connect", "drop", "disconnect"],
                ["connect", "op_abandoned", "disconnect"], [])


def two_loops(res, kind, pre, close_first):
    """One client object used under two event loops one after the other (two asyncio.run calls in one process):
    'the client can connect again afterwards'."""
    case = {"part": "twoloops", "kind": kind, "pre": list(pre), "close_first": close_first,
            "actions": list(pre) + ["<new event loop>", "connect", "op_ok", "disconnect", "ctx_ok"]}
    set_zone("UTC")
    with Clock(1_700_000_000.0):
        wd = World(kind)
        old = wd.loop
        try:
            for n, a in enumerate(pre):
                if not wd.step(a, res, case, n):
                    return
            if close_first:
                old.finish()
            wd.loop = new_loop()
            wd.loop.refuse = lambda n, h, p: wd.refuse_next
            wd.w.loop = wd.loop
            wd.w.conn = None
            wd.live = None
            for n, a in enumerate(["connect", "op_ok", "disconnect", "ctx_ok"]):
                if not wd.step(a, res, case, len(pre) + 1 + n):
                    return
        finally:
            wd.close()
            if not close_first:
                old.finish()


TLA_ACTIONS = {"Connect": ["connect"], "Refused": ["refused"], "Operation": ["op_ok", "op_garbage", "op_badarg", "op_abandoned"],
               "Context": ["ctx_ok", "ctx_raise", "ctx_raise_os", "ctx_raise_conn", "ctx_raise_base"], "CtxRefused": ["ctx_refused"], "Drop": ["drop"], "Disconnect": ["disconnect"]}


def tla_conformance(res, kind):
    """TLC explores tla/ClientLifecycle.tla completely; every edge of its state graph is replayed on the real client
    (each model action by every harness action that implements it) and the observed `connected` flag and the
    device-side end-of-stream are compared with the model's states."""
    from mc import tla

    if not tla.available():
        res.notes.append("tlc not on PATH: TLA+ conformance part skipped")
        return
    try:
        states, edges, init, summary = tla.state_graph("ClientLifecycle")
    except Exception as exc:  # noqa: BLE001 - the TLA+ part is an addition; without a working TLC it is skipped, never failed
        res.notes.append(f"TLC run failed, TLA+ conformance part skipped: {str(exc)[:200]}")
        return
    paths = tla.shortest_paths(states, edges, init)
    res.add("tla", (kind, len(states), len(edges), summary))
    set_zone("UTC")
    for src, a, arg, dst in edges:
        for last in TLA_ACTIONS[a]:
            actions = [TLA_ACTIONS[x][0] for x, _ in paths[src]] + [last]
            case = {"part": "tla", "kind": kind, "actions": actions, "edge": a}
            with Clock(1_700_000_000.0):
                wd = World(kind)
                try:
                    ok = True
                    for n, act in enumerate(actions[:-1]):
                        ok = wd.step(act, res, case, n) and ok
                    if ok and wd.w.api.connected is not states[src]["connected"]:
                        res.violation("tla-conformance:source-state", case, f"after {actions[:-1]} connected={wd.w.api.connected}, model state {states[src]}")
                        ok = False
                    if ok and wd.step(last, res, case, len(actions) - 1):
                        obs = wd.w.api.connected
                        conn = wd.loop.conns[-1] if wd.loop.conns else None
                        if conn is not None:
                            wd.loop.settle()
                            conn.poll()
                        if obs is not states[dst]["connected"]:
                            res.violation(f"tla-conformance:{a}", case, f"model edge {a} leads to {states[dst]}; the client says connected={obs}")
                        elif conn is not None and not states[dst]["connected"] and a in ("Disconnect", "Context") and not (conn.eof or conn.closed):
                            res.violation(f"tla-conformance:{a}:socket", case, f"model edge {a}: the device end of the connection did not see end-of-stream")
                    res.traces += 1
                    res.case(("tla", kind, tuple(actions)))
                    res.transition(("tla", kind, src, last, dst))
                    res.state(("tla", kind, tuple(sorted(states[dst].items()))))
                finally:
                    wd.close()


def twin(res, kinds, actions):
    """TLA+ conformance: TLC checks tla/ClientLifecycle.tla and dumps its complete state graph; every edge is replayed on
the real client, each model action by every harness action implementing it (3 operations, 4 kinds of context body).
Two client objects in one process and loop: what one does never changes the other's flag or socket."""
    set_zone("UTC")
    case = {"part": "twin", "kinds": kinds, "actions": actions}
    with Clock(1_700_000_000.0):
        loop = new_loop()
        try:
            ws = {"A": ApiWorld(kinds[0], "aabbcc", "18", ip="192.168.7.21", loop=loop, device=Device()),
                  "B": ApiWorld(kinds[1], "3c4d5e", "a5", ip="192.168.7.21", loop=loop, device=Device(0x7E000000))}
            connected = {"A": False, "B": False}
            conn = {"A": None, "B": None}
            for n, act in enumerate(actions):
                who, what = act[-1], act[:-1]
                w = ws[who]
                tag = f"after action #{n} {act} of {actions} (types {kinds})"
                if what == "connect":
                    nc = len(loop.conns)
                    out = task_outcome(loop.run_task(w.api.connect()))
                    if out[0] != "ok" or len(loop.conns) != nc + 1:
                        res.violation("connect-fails", case, f"{tag}: {out}")
                        return
                    conn[who] = loop.conns[-1]
                    w.conn = conn[who]
                    connected[who] = True
                elif what == "disconnect":
                    out = task_outcome(loop.run_task(w.api.disconnect()))
                    if out[0] != "ok":
                        res.violation("disconnect-raises", case, f"{tag}: {out[1]!r}")
                        return
                    connected[who] = False
                else:  # op
                    if not connected[who]:
                        continue
                    op, args, script = op_spec(w.kind, "op_ok")
                    out, writes, rx = w.run_op(op, args)
                    if out[0] != "ok" or not out[1].successful:
                        res.violation("twin:operation", case, f"{tag}: {out[0]} {out[1]!r}")
                        return
                    other = ws["B" if who == "A" else "A"]
                    if other.conn is not None and other.conn.poll():
                        res.violation("twin:wrote-to-other-connection", case, f"{tag}: bytes appeared on the other client's connection")
                        return
                loop.settle()
                for name in ("A", "B"):
                    if ws[name].api.connected is not connected[name]:
                        res.violation("twin:connected-flag", case, f"{tag}: client {name} connected={ws[name].api.connected}, expected {connected[name]}")
                        return
                    c = conn[name]
                    if c is not None:
                        c.poll()
                        if connected[name] and c is ws[name].conn and (c.eof or c.closed):
                            res.violation("twin:socket-closed-by-other", case, f"{tag}: client {name} is connected but its device saw end-of-stream")
                            return
                        if not connected[name] and not (c.eof or c.closed):
                            res.violation("socket-left-open", case, f"{tag}: client {name} disconnected but its device did not see end-of-stream")
                            return
        finally:
            loop.finish()


def jobs(tier, seed):
    js = []
    for kind in (1, 2):
        for a in ACTIONS:
            for b in ACTIONS:
                js.append({"part": "seq", "kind": kind, "prefix": [a, b], "depth": depth(tier)})
        js.append({"part": "short", "kind": kind})
        if tier == "thorough":
            for a in CORE_ACTIONS:
                for b in CORE_ACTIONS:
                    js.append({"part": "seq", "kind": kind, "prefix": [a, b], "depth": 6, "core": True})
        js.append({"part": "bfs", "kind": kind})
    js.append({"part": "tcp"})
    js.append({"part": "twoloops"})
    js.append({"part": "canceldisconnect"})
    for kind in (1, 2):
        js.append({"part": "tla", "kind": kind})
    for kinds in ((1, 1), (1, 2), (2, 2)):
        js.append({"part": "twin", "kinds": list(kinds), "depth": 4 if tier == "quick" else 5})
    return js


def run_job(job):
    res = Res()
    if job["part"] == "tcp":
        real_tcp(res)
        return res
    if job["part"] == "canceldisconnect":
        for kind in (1, 2):
            for pre in (["connect"], ["connect", "op_ok"], ["connect", "op_garbage"], ["connect", "op_abandoned"], ["connect", "disconnect", "connect"]):
                outs = set()
                for k in range(0, 7):
                    o = cancelled_disconnect(res, kind, pre, k)
                    outs.add(str(o))
                    res.traces += 1
                    res.case(("canceldisconnect", kind, tuple(pre), k), nontrivial=o == "cancelled")
                res.outcome(("canceldisconnect", kind, tuple(sorted(outs))))
        res.sample({"part": "canceldisconnect", "api_type": 1, "pre": ["connect", "op_ok"], "k": 0, "expect": "flag agrees with the socket; a complete disconnect and a new connect follow"})
        return res
    if job["part"] == "twoloops":
        for kind in (1, 2):
            for pre in TWO_LOOP_PRE:
                for close_first in (True, False):
                    two_loops(res, kind, pre, close_first)
                    res.traces += 1
                    res.case(("twoloops", kind, tuple(pre), close_first), nontrivial=bool(pre))
        res.sample({"part": "twoloops", "api_type": 1, "pre": ["connect", "op_ok", "disconnect"], "close_first": True})
        return res
    if job["part"] == "tla":
        tla_conformance(res, job["kind"])
        res.sample({"part": "tla", "model": "tla/ClientLifecycle.tla", "api_type": job["kind"], "edge": "Drop then Disconnect: connected FALSE, device sees end-of-stream"})
        return res
    if job["part"] == "twin":
        acts = ["connectA", "disconnectA", "opA", "connectB", "disconnectB", "opB"]
        for n in range(1, job["depth"] + 1):
            for seq in itertools.product(acts, repeat=n):
                if "connectA" not in seq and "connectB" not in seq:
                    continue
                if any(seq[i] == seq[i + 1] and seq[i].startswith("connect") for i in range(len(seq) - 1)):
                    continue  # connect on a connected client: only the newest connection is judged (single-client part)
                twin(res, job["kinds"], list(seq))
                res.traces += 1
                res.case(("twin", tuple(job["kinds"]), seq))
        res.sample({"part": "twin", "kinds": job["kinds"], "actions": ["connectA", "connectB", "disconnectA", "opB"]})
        return res
    kind = job["kind"]
    if job["part"] == "bfs":
        closed, nstates, d = bfs(kind, res)
        res.add("bfs_closed", (kind, closed, nstates, d))
        return res
    if job["part"] == "short":
        seqs = [[a] for a in ACTIONS if enabled(M0, a)] + [[]]
    else:
        seqs = list(sequences(job["prefix"], job["depth"], CORE_ACTIONS if job.get("core") else None))
        if job.get("core"):
            seqs = [q for q in seqs if len(q) == 6]  # the shorter ones are in the full-alphabet jobs
    for actions in seqs:
        case = {"part": "seq", "kind": kind, "actions": actions}
        executed, complete = run_history(kind, actions, res, case)
        if not complete:
            res.counters["pruned_disabled_action"] += 1
            continue
        res.traces += 1
        res.outcome((kind, tuple(executed[-2:])))
        res.case(("seq", kind, tuple(actions)), nontrivial=any(a in ("connect", "ctx_ok", "ctx_raise", "ctx_raise_os", "ctx_raise_base") for a in actions))
    if job["part"] == "seq" and job["prefix"] == ["connect", "drop"]:
        res.sample({"api_type": kind, "history": ["connect", "drop", "op_ok", "disconnect", "connect", "disconnect"][: job["depth"]]})
    return res


def replay(case):
    res = Res()
    if case.get("part") == "tla":
        r2 = Res()
        tla_conformance(r2, case["kind"])
        return [v for v in r2.violations if v["case"].get("actions") == case["actions"]] or r2.violations
    if case.get("part") == "twin":
        twin(res, case["kinds"], case["actions"])
    elif case.get("part") == "tcp":
        real_tcp(res)
    elif case.get("part") == "canceldisconnect":
        cancelled_disconnect(res, case["kind"], case["pre"], case["k"])
    elif case.get("part") == "twoloops":
        two_loops(res, case["kind"], case["pre"], case["close_first"])
    else:
        run_history(case["kind"], case["actions"], res, case, graph=False)
    return res.violations


# ---------------------------------------------------------------------------
# a few histories over real loopback TCP with the stock event loop


def real_tcp(res):
    from aioswitcher import api as A

    lock = open("/dev/shm/aioswitcher-verif-tcp.lock" if os.path.isdir("/dev/shm") else "/tmp/aioswitcher-verif-tcp.lock", "w")
    fcntl.flock(lock, fcntl.LOCK_EX)
    try:
        for kind, cls in ((1, A.SwitcherType1Api), (2, A.SwitcherType2Api)):
            case = {"part": "tcp", "kind": kind}
            try:
                probe = socket.socket()
                probe.setsockopt(socket.SOL_SOCKET, socket.SO_REUSEADDR, 1)
                probe.bind(("127.0.0.1", PORT[kind]))
                probe.close()
            except OSError:
                res.notes.append(f"real-TCP subset skipped for port {PORT[kind]}: port not available")
                continue

            async def scenario():
                seen = {"eof": 0, "conns": 0}

                async def handler(reader, writer):
                    seen["conns"] += 1
                    n = 0
                    while True:
                        data = await reader.read(4096)
                        if not data:
                            seen["eof"] += 1
                            break
                        n += 1
                        writer.write(RP.login(b"\x01\x02\x03\x04") if n % 2 == 1 else RP.generic())
                    writer.close()

                api = cls("127.0.0.1", "aabbcc", "18")
                problems = []
                # refused: nothing listens yet
                try:
                    await api.connect()
                    problems.append("connect to a closed port did not raise")
                except OSError:
                    pass
                if api.connected:
                    problems.append("connected is true after a refused connect")
                server = await asyncio.start_server(handler, "127.0.0.1", PORT[kind], family=socket.AF_INET, reuse_address=True)
                try:
                    for rnd in range(3):
                        await api.connect()
                        if not api.connected:
                            problems.append("connected false after connect")
                        r = await (api.control_device(A.Command.ON) if kind == 1 else api.set_position(40))
                        if not r.successful:
                            problems.append("operation unsuccessful over real TCP")
                        await api.disconnect()
                        if api.connected:
                            problems.append("connected true after disconnect")
                        for _ in range(50):
                            if seen["eof"] == rnd + 1:
                                break
                            await asyncio.sleep(0.01)
                        if seen["eof"] != rnd + 1:
                            problems.append(f"server did not see end-of-stream after disconnect #{rnd}")
                    async with cls("127.0.0.1", "aabbcc", "18") as ctx_api:
                        if not ctx_api.connected:
                            problems.append("not connected inside context")
                    if ctx_api.connected:
                        problems.append("connected after leaving context")
                    await api.disconnect()
                    await api.disconnect()
                finally:
                    server.close()
                    try:
                        # wait_closed() waits for every connection: a client that leaked its socket would block it for ever
                        await asyncio.wait_for(server.wait_closed(), 2.0)
                    except asyncio.TimeoutError:
                        problems.append("socket left open: the server still had a client connection after every disconnect")
                return problems, seen

            async def bounded():
                try:
                    return await asyncio.wait_for(scenario(), 30.0)
                except asyncio.TimeoutError:
                    return ["hang: the real-TCP scenario did not finish within 30 s"], {"eof": 0, "conns": 0}

            problems, seen = asyncio.run(bounded())
            res.case(("tcp", kind))
            res.traces += 1
            res.counters["real_tcp_connections"] += seen["conns"]
            for p in problems:
                res.violation("real-tcp:" + p.split(" ")[0], case, f"real TCP, type {kind}: {p}")
    finally:
        fcntl.flock(lock, fcntl.LOCK_UN)
        lock.close()


def finalize(merged, tier, seed):
    sa = merged.sets.get("state_action", set())
    closed = True
    missing = 0
    for entry in merged.sets.get("state_enabled", set()):
        kind, st, acts = entry[0], entry[1], entry[2:]
        for a in acts:
            if (kind, st, a) not in sa:
                closed = False
                missing += 1
    bc = sorted(merged.sets.get("bfs_closed", ()))
    return {
        "exhaustive": True,
        "tla_models": [{"api_type": k, "model_states": st, "model_edges": ed, "tlc": summ} for k, st, ed, summ in sorted(merged.sets.get("tla", ()))],
        "bfs_fixpoint": [{"api_type": k, "closed": c, "states": n, "depth_of_last_new_state": d} for k, c, n, d in bc],
        "depth": depth(tier),
        "actions": ACTIONS,
        "graph_closed": closed and all(c for _, c, _, _ in bc),
        "state_action_pairs_executed": len(sa),
        "state_action_pairs_missing": missing,
        "space": f"all action sequences to depth {depth(tier)} for both API classes (disabled actions prune the sequence)",
    }
