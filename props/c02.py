"""C02 - each operation's frame encodes exactly that operation and the caller's arguments.

Every type-1 operation and the shutter operations are called on a connected API object (real
StreamWriter over a socketpair, fake device answering) for every argument value of the domains in
mc/apicases.py; the command frame the device received is compared byte for byte with the frame the
reference layout (ref/frames.py) prescribes for those arguments and the configured device id.
Arguments outside the accepted domain must raise with at most the login frame written.
"""
from mc import apicases as A
from mc.core import Res

ID = "C02"
LEVEL = "exploration"
RULE = (
    "per-field complete domains (minutes 0..200 + every power of two +-1 to 2^32 + the 32-bit limit; every second "
    "around both auto-shutdown range ends + every whole minute; names over 1-4 byte code points: all width "
    "compositions to 8 bytes and homogeneous / ASCII-prefix forms for every byte length to 40; slots 0..7; all 128 "
    "day sets x corner-minute grid^2 and every (stride) start and end minute; positions 0..100; malformed clock "
    "strings; duplicate-bearing day sequences) x device ids (base id for all, every value of each id byte for one "
    "operation per kind). Each case runs on the real API; non-trivial = a command frame was captured and compared, "
    "or the call raised as required; distinct by (op, args, id)."
)
ASSUMPTIONS = [
    "session id, timestamp, length and signature bytes are judged by C01/C03, not here",
    "timedeltas strictly between 23:59:00 and 24:00:00 may be accepted (as 23:59) or rejected; one-character names of 2+ UTF-8 bytes and positions outside 0..100 are not judged",
    "fixed bytes of templates that no repository test pins (schedules, shutter) are a transcription of the pinned tree",
    "host zone UTC except for the create_schedule sweep over six zones on offset-change days (zones are C10/C11's main subject)",
]


def all_cases(tier, seed):
    base = A.seeded_base(seed)
    cases = []
    for kind, op, args in A.arg_cases(tier):
        cases.append({"kind": kind, "op": op, "args": args, "id": base["id"], "key": base["key"], "now": base["now"], "zone": "UTC"})
    # device id: every value of each of its three bytes (quick: 24 values per byte)
    vals = range(256) if tier == "thorough" else sorted({0, 1, 2, 4, 8, 15, 16, 32, 64, 127, 128, 129, 160, 170, 200, 240, 254, 255, 0x30, 0x61, 0x0a, 0x99, 0xf0, 0xfe})
    bid = bytes.fromhex(base["id"])
    ops = [(1, "control_on", {"minutes": 15}), (2, "set_position", {"position": 77})]
    if tier == "thorough":
        ops += [(1, "create_schedule", {"start": "06:15", "end": "07:45", "days": [1, 4]}), (1, "set_device_name", {"name": "Heater"}),
                (1, "set_auto_shutdown", {"seconds": 7200}), (1, "delete_schedule", {"slot": 5}), (1, "get_schedules", {}), (2, "stop", {}),
                (1, "get_state", {}), (2, "get_shutter_state", {})]
    for pos in range(3):
        for v in vals:
            nid = bytearray(bid)
            nid[pos] = v
            for kind, op, args in ops:
                cases.append({"kind": kind, "op": op, "args": args, "id": bytes(nid).hex(), "key": base["key"], "now": base["now"], "zone": "UTC"})
    # create_schedule in zones with DST / odd offsets, on and around offset-change days (local noon as "now")
    from ref import zones as Z

    zones = ["Asia/Jerusalem", "America/New_York", "Australia/Lord_Howe", "Asia/Kathmandu", "Pacific/Kiritimati", "Pacific/Pago_Pago"]
    mins = A.GRID_MIN + [90, 119, 120, 121, 150, 180, 181] if tier == "quick" else sorted(set(A.GRID_MIN) | set(range(0, 1440, 5)))
    for zone in zones:
        for d in Z.dates_for(zone, "quick"):
            if tier == "quick" and d not in Z.transition_days(zone) and d.month != 7:
                continue
            now = float(Z.epoch_at(zone, d, 12, 0, 0)) + 0.25
            for m in mins:
                for days in ([], [0, 6]):
                    cases.append({"kind": 1, "op": "create_schedule", "args": {"start": A.hm(m), "end": A.hm((m + 95) % 1440), "days": days},
                                  "id": base["id"], "key": base["key"], "now": now, "zone": zone})
    return cases


def jobs(tier, seed):
    cases = all_cases(tier, seed)
    n = 64 if tier == "thorough" else 32
    return [{"tier": tier, "seed": seed, "i": i, "n": n} for i in range(n)]


def run_job(job):
    res = Res()
    cases = all_cases(job["tier"], job["seed"])[job["i"]::job["n"]]
    run = A.Runner()
    try:
        for case in cases:
            r = run.run(case)
            ok = A.judge_c02(case, r, res)
            res.case((case["op"], case["args"], case["id"], case.get("zone"), case["now"]), nontrivial=ok is not None)
            if ok and len(res.samples) < 2 and r["writes"]:
                res.sample({"case": case, "command_frame": r["writes"][-1].hex()})
    finally:
        run.close()
    return res


def replay(case):
    res = Res()
    run = A.Runner()
    try:
        A.judge_c02(case, run.run(case), res)
    finally:
        run.close()
    return res.violations


def finalize(merged, tier, seed):
    return {"exhaustive": True, "space": "per-field domains as in rule; tier " + tier}
