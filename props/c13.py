"""C13 - the next-run text names the earliest upcoming run of the schedule.

7 current weekdays x all 128 day sets x (now, start) minute pairs on a grid with equality and both
neighbours x zones east and west of UTC (so that the local weekday differs from the UTC weekday for
part of the day), under a pinned wall clock and real tzset.  Both pretty_next_run and the `display`
field of a constructed SwitcherSchedule are compared with an earliest-occurrence reference.
"""
import datetime
import itertools

from mc.core import HarnessError, Res
from mc.world import Clock, SteppingClock, set_zone
from ref import zones as Z

ID = "C13"
LEVEL = "exploration"
RULE = (
    "7 local weekdays x 128 day sets x grid of (now, start) minute pairs {0,1,59,60,719,720,721,1380,1438,1439}^2 plus the "
    "(m, m-1/m/m+1) diagonal at stride 7 (thorough: stride 1) x zones; non-trivial = the day set is non-empty; distinct by "
    "(zone, weekday, now, start, day set)."
)
ASSUMPTIONS = [
    "'now' is pinned at hh:mm:30, so a start equal to the current minute has already passed",
    "the local date supplies the weekday: the week of 15-21 July 2024 (no offset changes) for the main grid, and the seven days up to and including every 2024 offset change of four DST zones for a reduced grid",
]

ZONES = ["UTC", "Asia/Jerusalem", "America/New_York", "Pacific/Kiritimati", "Pacific/Pago_Pago", "Asia/Kathmandu"]
GRID = [0, 1, 59, 60, 719, 720, 721, 1380, 1438, 1439]
WEEKDAY_NAMES = ["Monday", "Tuesday", "Wednesday", "Thursday", "Friday", "Saturday", "Sunday"]
MONDAY = datetime.date(2024, 7, 15)


def ref_next_run(weekday, now_m, start_m, days):
    """days: set of weekday indexes 0..6 (Monday=0)."""
    hhmm = "%02d:%02d" % divmod(start_m, 60)
    if not days:
        return f"Due today at {hhmm}"
    best = None
    for d in days:
        ahead = (d - weekday) % 7
        if ahead == 0 and not start_m > now_m:
            ahead = 7
        best = ahead if best is None else min(best, ahead)
    if best == 0:
        return f"Due today at {hhmm}"
    if best == 1:
        return f"Due tomorrow at {hhmm}"
    return f"Due next {WEEKDAY_NAMES[(weekday + best) % 7]} at {hhmm}"


def pairs(tier):
    if tier.startswith("dst-"):
        g = [0, 1, 20, 59, 60, 61, 120, 180, 720, 1380, 1410, 1438, 1439]
        return sorted(set(itertools.product(g, [0, 30, 720, 1439])) | {(m, m + d) for m in g for d in (-1, 0, 1) if 0 <= m + d < 1440})
    ps = set(itertools.product(GRID, GRID))
    step = 1 if tier == "thorough" else 7
    for m in range(0, 1440, step):
        for d in (-1, 0, 1):
            if 0 <= m + d < 1440:
                ps.add((m, m + d))
    return sorted(ps)


def day_sets():
    out = []
    for r in range(0, 8):
        out.extend(itertools.combinations(range(7), r))
    return out


DST_ZONES = ["Asia/Jerusalem", "America/New_York", "Europe/Berlin", "Australia/Lord_Howe"]


def jobs(tier, seed):
    js = [{"zone": z, "weekday": wd, "tier": tier} for z in ZONES for wd in range(7)]
    # the days before an offset change (the next run lies beyond the change), and the day of the change itself
    for z in DST_ZONES:
        for t in Z.transition_days(z):
            for back in range(0, 7):
                js.append({"zone": z, "date": (t - datetime.timedelta(days=back)).isoformat(), "tier": "dst-" + tier})
    # the turn of the month and of the year (tomorrow is the 1st)
    for z in ("UTC", "Pacific/Kiritimati", "America/New_York"):
        for d in ("2024-12-30", "2024-12-31", "2025-01-01", "2024-02-28", "2024-02-29", "2025-02-28", "2024-04-30"):
            js.append({"zone": z, "date": d, "tier": "dst-" + tier})
    # the clock moves on (to the next minute, to the next day) between two clock reads of one call
    for z in ZONES:
        js.append({"zone": z, "part": "stepping", "tier": tier})
    return js


def check_stepping(res, clk, zone, date, from_hms, start_m, days, D, jump_at):
    """The clock moves from `from_hms`.5 to one second later just before clock read `jump_at` of one call: the text must be
    the right answer for the moment before or for the moment after, nothing else."""
    from aioswitcher.schedule import tools

    h, mi, sec = from_hms
    hhmm = "%02d:%02d" % divmod(start_m, 60)
    case = {"stepping": True, "zone": zone, "date": date.isoformat(), "from": list(from_hms), "start_m": start_m, "days": list(days), "jump_at": jump_at}
    e0 = Z.epoch_at(zone, date, h, mi, sec)
    e1 = e0 + 1
    exp = set()
    for e in (e0, e1):
        ld = Z.local_date(zone, e)
        hm = Z.local_hm(zone, e)
        exp.add(ref_next_run(ld.weekday(), int(hm[:2]) * 60 + int(hm[3:]), start_m, set(days)))
    clk.move_to(float(e0) + 0.5)
    clk.arm(jump_at)
    try:
        out = tools.pretty_next_run(hhmm, {D[i] for i in days})
    except Exception as exc:  # noqa: BLE001
        res.violation("next-run-raises-when-clock-moves", case, f"{zone} {date} {from_hms}: raised {exc!r}")
        return clk.reads
    finally:
        clk.jump_at = None
    res.evals += 1
    if clk.jumped:
        res.kcount += 1
    if out not in exp:
        res.violation("next-run-mixes-two-moments", case,
                      f"{zone}: the clock moves from {date} {h:02d}:{mi:02d}:{sec:02d} to the next second before read {jump_at} of one call; start {hhmm}, days "
                      f"{[WEEKDAY_NAMES[i] for i in days]}: got {out!r}, right before or after would be {sorted(exp)}", sorted(exp), out)
    return clk.reads


def run_stepping(job, res):
    from aioswitcher.schedule import Days

    zone = job["zone"]
    D = list(Days)
    set_zone(zone)
    sets = day_sets()[1:]
    with SteppingClock(0.0) as clk:
        for wd in range(7):
            date = MONDAY + datetime.timedelta(days=wd)
            for from_hms, starts in (((23, 59, 59), (0, 1, 720, 1439)), ((11, 59, 59), (719, 720, 721)), ((0, 0, 59), (0, 1, 2))):
                for start_m in starts:
                    for days in (sets if job.get("tier") == "thorough" else sets[::3]):
                        reads = check_stepping(res, clk, zone, date, from_hms, start_m, days, D, None)
                        for k in range(reads + 1):
                            check_stepping(res, clk, zone, date, from_hms, start_m, days, D, k)
    res.outcome(("stepping", zone))
    return res


def check(res, zone, weekday, now_m, start_m, days, D, via, date=None):
    from aioswitcher.schedule import tools
    from aioswitcher.schedule.parser import SwitcherSchedule

    hhmm = "%02d:%02d" % divmod(start_m, 60)
    dayset = {D[i] for i in days}
    exp = ref_next_run(weekday, now_m, start_m, set(days))
    case = {"zone": zone, "weekday": weekday, "now_m": now_m, "start_m": start_m, "days": list(days), "via": via}
    if date is not None:
        case["date"] = date
    try:
        if via == "fn":
            out = tools.pretty_next_run(hhmm, dayset) if days else tools.pretty_next_run(hhmm)
        else:
            out = SwitcherSchedule("1", bool(days), dayset, hhmm, "23:59").display
    except Exception as exc:  # noqa: BLE001
        res.violation(f"next-run-raises:{via}", case, f"{zone} weekday {weekday} now {now_m} start {hhmm} days {list(days)}: raised {exc!r}", exp, repr(exc))
        return
    if out != exp:
        today_sel = weekday in days
        kind = ("today-passed-other-days" if today_sel and start_m <= now_m and len(days) > 1 else
                "today-only-passed" if today_sel and start_m <= now_m else
                "today-ahead" if today_sel else "other-day")
        res.violation(f"next-run-text:{kind}:{'utc' if zone == 'UTC' else 'zone'}", case,
                      f"{zone}, local {WEEKDAY_NAMES[weekday]} {now_m // 60:02d}:{now_m % 60:02d}:30, start {hhmm}, days {[WEEKDAY_NAMES[i] for i in days]}: got {out!r}, expected {exp!r}", exp, out)
    elif days and "next" in out:
        named = out.split()[2]
        if named not in [WEEKDAY_NAMES[i] for i in days]:
            res.violation("names-unselected-day", case, f"{out!r} names a weekday that is not selected")


def run_job(job):
    import time as _t

    from aioswitcher.schedule import Days

    res = Res()
    if job.get("part") == "stepping":
        return run_stepping(job, res)
    zone = job["zone"]
    D = list(Days)
    if "date" in job:
        date = datetime.date.fromisoformat(job["date"])
        wd = date.weekday()
    else:
        wd = job["weekday"]
        date = MONDAY + datetime.timedelta(days=wd)
    set_zone(zone)
    sets = day_sets()
    with Clock(0.0) as clk:
        last_now = None
        for now_m, start_m in pairs(job["tier"]):
            if not Z.local_to_epochs(zone, date, now_m // 60, now_m % 60, 30):
                continue  # this local minute does not exist on this date
            if now_m != last_now:
                now = Z.epoch_at(zone, date, now_m // 60, now_m % 60, 30)
                clk.move_to(float(now))
                last_now = now_m
                if _t.strftime("%Y-%m-%d %H:%M") != f"{date.isoformat()} {now_m // 60:02d}:{now_m % 60:02d}":
                    raise HarnessError("virtual clock/zone not in effect")
            dj = job.get("date")
            for days in sets:
                check(res, zone, wd, now_m, start_m, days, D, "fn", dj)
                res.evals += 1
                if days:
                    res.kcount += 1
            for days in sets[::5]:
                check(res, zone, wd, now_m, start_m, days, D, "schedule", dj)
                res.evals += 1
        # second enumeration order: one (start, day set) asked again and again as the clock advances through the day
        # (an answer must not be remembered from an earlier time of the same day)
        for days in sets[1:]:
            for start_m in ((1, 720, 1439) if "date" in job else (1, 60, 720, 1380, 1439)):
                for now_m in sorted({0, start_m - 1, start_m, start_m + 1, 1439}):
                    if not 0 <= now_m < 1440 or not Z.local_to_epochs(zone, date, now_m // 60, now_m % 60, 30):
                        continue
                    clk.move_to(float(Z.epoch_at(zone, date, now_m // 60, now_m % 60, 30)))
                    check(res, zone, wd, now_m, start_m, days, D, "fn", job.get("date"))
                    res.evals += 1
                    res.kcount += 1
    res.outcome((zone, wd))
    if wd == 2 and zone == "America/New_York":
        res.sample({"zone": zone, "local_now": "Wednesday 23:00:30", "start": "22:59", "days": ["Wednesday", "Friday"], "expected": ref_next_run(2, 1380, 1379, {2, 4})})
    return res


def replay(case):
    from aioswitcher.schedule import Days

    res = Res()
    set_zone(case["zone"])
    if case.get("stepping"):
        with SteppingClock(0.0) as clk:
            check_stepping(res, clk, case["zone"], datetime.date.fromisoformat(case["date"]), tuple(case["from"]), case["start_m"], tuple(case["days"]), list(Days), case["jump_at"])
        return res.violations
    date = datetime.date.fromisoformat(case["date"]) if case.get("date") else MONDAY + datetime.timedelta(days=case["weekday"])
    with Clock(0.0) as clk:
        clk.move_to(float(Z.epoch_at(case["zone"], date, case["now_m"] // 60, case["now_m"] % 60, 30)))
        check(res, case["zone"], case["weekday"], case["now_m"], case["start_m"], tuple(case["days"]), list(Days), case["via"], case.get("date"))
    return res.violations


def finalize(merged, tier, seed):
    return {"exhaustive": True, "zones": ZONES, "minute_pairs": len(pairs(tier)), "day_sets": 128, "space": "weekdays x day sets x minute pairs x zones"}
