"""C04 - the signature is the protocol's double CRC-16 for every byte string.

Explicit-state enumeration of the CRC automaton, every transition replayed through the real
sign_packet_with_crc_key:

  (i)   all 65,793 byte strings of length 0..2, lower- and upper-case hex.  A 16-bit CRC is a
        bijection on 2-byte messages, so these reach all 65,536 automaton states (checked: the
        run counts the distinct first-stage values it saw) and exercise the second stage
        (byte swap, zero-padded hex, key CRC) on every possible first-stage value.
  (ii)  for every state s (entered through its 2-byte string w_s) and every byte b, the signer's
        output on w_s.b must be the reference transition delta(s,b)  (16,777,216 transitions).
  (iii) crc left-fold spot check on every split of structured longer strings (lengths to 4096),
        every single-bit flip of real frames, determinism, prefix preservation, and rejection of
        every non-hex / odd-length input from a systematic alphabet.

(i)+(ii) give, by induction on length, the signature of every byte string, assuming only that
the implementation folds bytes left to right through one 16-bit state (which (iii) probes).
"""
from mc.core import Res
from ref import crc as R

ID = "C04"
LEVEL = "model_checking"
RULE = (
    "states = 16-bit CRC values reached by real signer calls; transitions = (state, byte) pairs whose "
    "successor was read back from the real signer's output and compared with the bitwise reference; "
    "every explored string is signed by the implementation, so traces_validated_against_impl = signer calls. "
    "distinct_nontrivial counts distinct inputs on which the signer returned a signature."
)
ASSUMPTIONS = [
    "induction step assumes the implementation processes bytes left to right through a 16-bit state (binascii.crc_hqx); probed on all split points of the structured strings",
    "reference second stage validated against 6 signed literals from the repository's tests; first stage also against 4 real device captures",
]

HEXB = ["%02x" % i for i in range(256)]
_SIG = None
_PRE = None


def _tables():
    """SIG[c] = hex signature for first-stage value c; PRE[s] = hex of the 2-byte string reaching s."""
    global _SIG, _PRE
    if _SIG is None:
        _SIG = [R.signature_from_crc(c).hex() for c in range(65536)]
        pre = [None] * 65536
        for a in range(256):
            sa = R.step(R.INIT, a)
            for b in range(256):
                pre[R.step(sa, b)] = HEXB[a] + HEXB[b]
        assert all(p is not None for p in pre), "2-byte strings do not reach every CRC state"
        _PRE = pre
    return _SIG, _PRE


def selftest():
    R.selftest()


def jobs(tier, seed):
    js = [{"part": "short", "lo": lo, "hi": lo + 32} for lo in range(0, 256, 32)]
    js.append({"part": "misc"})
    for lo in range(0, 256, 32):
        js.append({"part": "headers", "lo": lo, "hi": lo + 32})
    js.append({"part": "reject"})
    # every state x every byte, state entered through its 2-byte string (both tiers); thorough also
    # enters every state through a second, 3-byte string (prefix 5a) to probe that only the state matters
    for lo in range(0, 65536, 1024):
        js.append({"part": "trans", "lo": lo, "hi": lo + 1024, "pre": 2})
        if tier == "thorough":
            js.append({"part": "trans", "lo": lo, "hi": lo + 1024, "pre": 3})
    return js


_PRE3 = None


def _pre3():
    """PRE3[s] = hex of the 3-byte string 5a.x.y reaching state s (a second way into each state)."""
    global _PRE3
    if _PRE3 is None:
        pre = [None] * 65536
        s0 = R.step(R.INIT, 0x5A)
        for a in range(256):
            sa = R.step(s0, a)
            for b in range(256):
                pre[R.step(sa, b)] = "5a" + HEXB[a] + HEXB[b]
        assert all(p is not None for p in pre)
        _PRE3 = pre
    return _PRE3


def _sign(hexstr):
    from aioswitcher.device.tools import sign_packet_with_crc_key

    return sign_packet_with_crc_key(hexstr)


def _check_string(res, hexstr, kind):
    """Full check of one input (slow path, used for violations/replay and the small sets)."""
    case = {"hex": hexstr, "kind": kind}
    data = bytes.fromhex(hexstr)
    exp = hexstr + R.signature(data).hex()
    try:
        out = _sign(hexstr)
        out2 = _sign(hexstr)
    except Exception as exc:  # noqa: BLE001
        res.case(None, nontrivial=False)
        res.violation(f"signer-raises-on-valid-hex:{kind}", case, f"sign({hexstr[:40]}..) raised {type(exc).__name__}: {exc}", exp[-8:], repr(exc))
        return
    res.case(("s", hexstr))
    res.traces += 1
    if out != out2:
        res.violation(f"signer-nondeterministic:{kind}", case, f"two calls differ: {out[-8:]} vs {out2[-8:]}", out, out2)
    if not isinstance(out, str) or out[: len(hexstr)] != hexstr:
        res.violation(f"signer-alters-input:{kind}", case, f"output does not start with the input: {str(out)[:60]}", hexstr, out)
    elif len(out) != len(hexstr) + 8:
        res.violation(f"signature-length:{kind}", case, f"appended {len(out) - len(hexstr)} hex digits, expected 8", 8, len(out) - len(hexstr))
    elif out.lower() != exp.lower():
        stage = "first" if out[len(hexstr):len(hexstr) + 4].lower() != exp[-8:-4] else "second"
        res.violation(f"signature-wrong:{stage}-stage:{kind}", case, f"sign({hexstr[:48]}{'..' if len(hexstr) > 48 else ''}) signature {out[-8:]}, expected {exp[-8:]}", exp[-8:], out[-8:])
    elif out[len(hexstr):] != exp[-8:]:
        res.violation(f"signature-not-lowercase:{kind}", case, f"signature {out[-8:]} expected {exp[-8:]}", exp[-8:], out[-8:])


def _frames():
    out = [hx + sig for hx, sig in R.SIGNED_LITERALS] + list(R.DEVICE_CAPTURES)
    return out


def run_job(job):
    from aioswitcher.device.tools import sign_packet_with_crc_key as sign
    from binascii import crc_hqx

    res = Res()
    SIG, PRE = _tables()
    part = job["part"]
    if part == "short":
        if job["lo"] == 0:
            _check_string(res, "", "len0")
            res.state(R.INIT)
        for a in range(job["lo"], job["hi"]):
            ha = HEXB[a]
            s1 = R.step(R.INIT, a)
            for spell in (ha, ha.upper()):
                if sign(spell) != spell + SIG[s1]:
                    _check_string(res, spell, "len1")
                else:
                    res.evals += 1
                    res.traces += 1
            res.keys.add(a + 1)
            res.states.add(s1)
            for b in range(256):
                hx = ha + HEXB[b]
                s2 = R.step(s1, b)
                # a signed string is itself just a byte string: signing it again appends a second signature
                once = hx + SIG[s2]
                s6 = R.crc(bytes.fromhex(SIG[s2]), s2)
                if sign(once) != once + SIG[s6]:
                    _check_string(res, once, "signed-again")
                else:
                    res.evals += 1
                    res.traces += 1
                ok = sign(hx) == hx + SIG[s2]
                hu = hx.upper()
                ok2 = sign(hu) == hu + SIG[s2]
                if not (ok and ok2):
                    _check_string(res, hx if not ok else hu, "len2")
                else:
                    res.evals += 2
                    res.traces += 2
                res.keys.add(0x10000 | (a << 8) | b)
                res.states.add(s2)
        res.sample({"input_hex": HEXB[job["lo"]] + "ff", "expected_signature": SIG[R.step(R.step(R.INIT, job["lo"]), 255)]})
    elif part == "trans":
        if job["pre"] == 3:
            PRE = _pre3()
        bs = range(256)
        for s in range(job["lo"], job["hi"]):
            w = PRE[s]
            sh = (s << 8) & 0xFFFF
            hi = s >> 8
            T = R.TABLE
            for b in bs:
                hx = w + HEXB[b]
                nxt = sh ^ T[hi ^ b]
                if sign(hx) != hx + SIG[nxt]:
                    _check_string(res, hx, "transition")
                else:
                    res.evals += 1
                    res.traces += 1
            if job["pre"] == 2:
                res.tcount += 256
            res.states.add(s)
            res.kcount += 256  # 256 distinct strings per state and entry family
        res.counters["transition_states"] += job["hi"] - job["lo"]
        res.sample({"state": "%04x" % job["lo"], "entered_by": PRE[job["lo"]], "byte": "ff", "next_state": "%04x" % R.step(job["lo"], 255)})
    elif part == "headers":
        # strings that look like frame headers: magic + every 16-bit length field, and every 2-byte start followed by a
        # zero length field - content must never make the signer treat a string specially
        for a in range(job["lo"], job["hi"]):
            for b in range(256):
                for hx in ("fef0" + HEXB[a] + HEXB[b] + "00010203", HEXB[a] + HEXB[b] + "0000" + "0a0b", "fef00000" + HEXB[a] + HEXB[b]):
                    data = bytes.fromhex(hx)
                    if sign(hx) != hx + SIG[R.crc(data)]:
                        _check_string(res, hx, "header-like")
                    else:
                        res.evals += 1
                        res.traces += 1
                        res.kcount += 1
        res.sample({"input_hex": "fef0000000010203", "note": "a zero length field is just two zero bytes"})
    elif part == "misc":
        # structured longer strings, left-fold property on every split, bit flips of real frames
        longs = []
        for L in list(range(3, 301)) + [1023, 1024, 2048, 4095, 4096]:
            longs.append(bytes(L))
            longs.append(b"\xff" * L)
            longs.append(bytes((i * 7 + L) & 0xFF for i in range(L)))
        for L in range(3, 65):
            for pos in range(L):
                z = bytearray(L)
                z[pos] = 1 << (pos % 8)
                longs.append(bytes(z))
        # around and beyond what a 16-bit length field could describe: the signing scheme has no length limit
        for L in (65530, 65531, 65532, 65535, 65536, 65540, 131072, 1 << 20):
            longs.append(bytes((i * 13 + L) & 0xFF for i in range(L)))
        for d in longs:
            _check_string(res, d.hex(), "long")
        for d in longs[:: max(1, len(longs) // 400)]:
            for cut in range(0, len(d) + 1, max(1, len(d) // 64)):
                res.evals += 1
                if crc_hqx(d, 0x1021) != crc_hqx(d[cut:], crc_hqx(d[:cut], 0x1021)):
                    res.violation("crc-not-left-fold", {"hex": d.hex(), "kind": "fold", "cut": cut}, "crc_hqx is not a left fold", None, None)
        # the other public helper that touches a frame before it is signed: what it returns is signed like any string
        from aioswitcher.device.tools import set_message_length

        for fr in _frames():
            raw = bytes.fromhex(fr)[:-4]
            for placeholder in ("fef00000", "fef0ffff", raw[:4].hex()):
                m = placeholder + raw[4:].hex()
                try:
                    r = set_message_length(m)
                except Exception as exc:  # noqa: BLE001
                    res.violation("set-message-length-raises", {"hex": m, "kind": "after-set-length"}, f"set_message_length raised {exc!r}")
                    continue
                _check_string(res, r, "after-set-length")
                _check_string(res, m, "after-set-length")
        for fr in _frames():
            body = bytearray(bytes.fromhex(fr)[:-4])
            for i in range(len(body)):
                for bit in range(8):
                    body[i] ^= 1 << bit
                    _check_string(res, bytes(body).hex(), "bitflip")
                    body[i] ^= 1 << bit
            _check_string(res, bytes(body).hex(), "frame")
            _check_string(res, bytes(body).hex().upper(), "frame-upper")
            full = bytes(body) + R.signature(bytes(body))
            _check_string(res, full.hex(), "signed-frame-again")
            _check_string(res, (full + R.signature(full)).hex(), "signed-frame-twice")
        res.sample({"input": "single-bit flips of the 10 reference frames; 00^L, ff^L, ramp for L=3..300,1023..4096, 65530..65540, 128 KiB, 1 MiB"})
    elif part == "reject":
        bad_chars = list("gGzZxX -+.:_/\\\n\t\x00שé") + ["0x"]
        hexc = "09afAF"
        cands = set()
        for c in bad_chars + list(hexc):
            cands.add(c)  # length 1: odd or non-hex
        for c in bad_chars:
            for h in hexc:
                cands.update({c + h, h + c, c + c})
                for h2 in hexc:
                    cands.update({c + h + h2 + h, h + c + h2 + h, h + h2 + c + h, h + h2 + h + c})
        for h in hexc:
            for h2 in hexc:
                for h3 in hexc:
                    cands.add(h + h2 + h3)  # odd number of hex digits
        cands.update({"just a regular string", "fef0 3000", "0x1f", "fe f0", "fef0\n", " fef0", "fef", "f" * 101})
        # whitespace / separators between or around whole byte pairs (lenient hex parsers accept these)
        for sep in (" ", "  ", "\n", "\t", ":", "-", ","):
            cands.update({"ab" + sep + "cd", sep + "abcd", "abcd" + sep, "ab" + sep + "cd" + sep + "ef", sep + "ab" + sep, "fef05200" + sep + "0232a100" + sep})
        for c in sorted(cands):
            valid = len(c) % 2 == 0 and all(ch in "0123456789abcdefABCDEF" for ch in c)
            if valid:
                continue
            res.case(("rej", c))
            try:
                out = _sign(c)
            except Exception as exc:  # noqa: BLE001
                res.outcome(type(exc).__name__)
                continue
            res.violation("signer-accepts-non-hex", {"hex": c, "kind": "reject"}, f"sign({c!r}) returned {out!r} instead of raising", "raise", out)
        res.sample({"input": "0g", "expected": "raises"})
    return res


def replay(case):
    res = Res()
    if case["kind"] == "after-set-length":
        # the order of calls matters for this family: replay the whole part
        r2 = run_job({"part": "misc"})
        return [v for v in r2.violations if v["case"].get("kind") == "after-set-length"]
    if case["kind"] == "reject":
        try:
            out = _sign(case["hex"])
            res.violation("signer-accepts-non-hex", case, f"returned {out!r}", "raise", out)
        except Exception:  # noqa: BLE001
            pass
    elif case["kind"] == "fold":
        from binascii import crc_hqx

        d = bytes.fromhex(case["hex"])
        cut = case["cut"]
        if crc_hqx(d, 0x1021) != crc_hqx(d[cut:], crc_hqx(d[:cut], 0x1021)):
            res.violation("crc-not-left-fold", case, "crc_hqx is not a left fold")
    else:
        _check_string(res, case["hex"], case["kind"])
    return res.violations


def finalize(merged, tier, seed):
    full = True
    extra = {
        "exhaustive": True,
        "automaton_states_total": 65536,
        "all_states_reached": len(merged.states) == 65536,
        "bytes_per_state": 256,
        "state_entry_strings": "2-byte preimage" + (" and 3-byte preimage (prefix 5a)" if tier == "thorough" else ""),
        "induction_closed": full,
        "space": "all strings of length 0..2 in both hex cases; every state x "
        + "all 256 bytes"
        + "; structured long strings; bit flips of 10 frames; systematic non-hex inputs",
    }
    if len(merged.states) != 65536 and not merged.violations:
        merged.violation("not-all-states-reached", {"hex": "", "kind": "len0"}, f"only {len(merged.states)} of 65536 CRC states were reached")
    return extra
