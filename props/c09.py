"""C09 - no device reply can crash the client or be mistaken for success.

Fault enumeration on the real client: for every operation, at every step of its exchange, the fake
device answers with one fault from the alphabet (the other steps get valid replies):
    eof               the device ends the stream (the only way a stream read returns nothing)
    prefix n          the first n bytes of the valid reply, every n in 1..len-1
    corrupt i v       the valid reply with byte i replaced by value v (thorough: all 256 v; quick: 16)
    slow t            the valid reply, sent after t = 11, 31, 61, 3600 (virtual) seconds: a late reply is still that reply
    fill n b          n bytes of constant b, n in 1..1024 (quick: boundary lengths), b in {00, ff, 30, 80}
    long              1025 bytes (one more than the client reads at once)
plus every pair of faults from a reduced alphabet at two different steps.
Oracle: a state query returns a response object of its class or raises exactly RuntimeError; a
generic operation returns a response whose `successful` is (reply non-empty) - or, for an empty
reply, raises RuntimeError; with an empty login reply, state queries and all type-2 operations raise
RuntimeError and the device log holds the login frame only.  After the device ended the stream, a further
state query and a further generic operation on the same object are judged the same way; and a response
object keeps reporting what it reported when it was returned, whatever the client does afterwards.
"""
import itertools

from mc.apiworld import OPS, ApiWorld, Device, expected_shape
from mc.core import Res
from mc.world import Clock, set_zone
from ref import replies as RP

ID = "C09"
LEVEL = "fault_enumeration"
RULE = (
    "every (operation, step, fault) with fault from {eof, every prefix length, every single-byte corruption x values, "
    "constant fills of every length 1..1024 x 4 fill bytes, 1025-byte reply} and every pair from the reduced alphabet at "
    "two steps; each injected into a real exchange. non-trivial = the faulty reply was delivered to the client and the "
    "operation's outcome judged; distinct by (operation, faults)."
)
ASSUMPTIONS = [
    "an empty reply over a stream is end-of-stream (the device closes its sending side); resets are outside the alphabet",
    "get_schedules (own response class) is outside the statement's two response families and is only checked not to hang",
    "a generic operation may raise RuntimeError instead of returning an unsuccessful response when a reply is empty, or when the login reply is too short to carry a session id",
    "'raises RuntimeError' is satisfied by a subclass of RuntimeError",
]

STATE_QUERIES = {"get_state": "SwitcherStateResponse", "get_shutter_state": "SwitcherShutterStateResponse", "get_breeze_state": "SwitcherThermostatStateResponse"}
GENERIC = ["control_on", "control_off", "control_timer", "set_auto_shutdown", "set_device_name", "delete_schedule", "create_schedule",
           "stop", "set_position", "breeze_main", "breeze_swing", "breeze_update", "breeze_swing_only", "breeze_plain_swing_only", "breeze_temp_only"]
ALL_OPS = list(STATE_QUERIES) + GENERIC + ["get_schedules"]
QV = [0x00, 0x01, 0x02, 0x05, 0x0a, 0x0f, 0x10, 0x30, 0x39, 0x41, 0x66, 0x7f, 0x80, 0xc3, 0xfe, 0xff]
FILLS = [0x00, 0xff, 0x30, 0x80]
REDUCED = [("eof",), ("prefix", 1), ("prefix", 11), ("prefix", 12), ("half",), ("fill", 64, 0xff), ("fill", 107, 0x00), ("fill", 129, 0x00), ("fill", 300, 0xff), ("fill", 1024, 0x30), ("long",)]


def valid_replies(op):
    dev = Device()
    kinds = expected_shape(op)
    out = []
    for k in kinds:
        if k.startswith("login"):
            out.append(RP.login(b"\x5e\x01\x02\x03"))
        elif k == "get_state1":
            out.append(RP.state1(*dev.state1))
        elif k == "get_state2":
            out.append(RP.shutter(50, "stop") if op == "get_shutter_state" else RP.thermostat(**dev.thermo))
        elif k == "get_schedules":
            out.append(RP.schedules([RP.schedule_record(0, 0xFC, 1700000000, 1700003600)]))
        else:
            out.append(RP.generic())
    return out


def make_reply(valid, fault):
    k = fault[0]
    if k == "eof":
        return None
    if k == "prefix":
        return valid[: fault[1]]
    if k == "half":
        return valid[: len(valid) // 2]
    if k == "corrupt":
        b = bytearray(valid)
        b[fault[1]] = fault[2]
        return bytes(b)
    if k == "fill":
        return bytes([fault[2]]) * fault[1]
    if k == "long":
        return (valid + bytes(1025))[:1025]
    if k == "slow":
        return ("delay", fault[1], valid)  # the valid reply, after that many (virtual) seconds
    if k == "valid":
        return valid
    raise KeyError(k)


def faults_for(valid, tier, parsed):
    """Single-step fault alphabet for a step whose valid reply is `valid`."""
    fs = [("eof",), ("long",), ("slow", 11), ("slow", 31), ("slow", 61), ("slow", 3600)]
    fs += [("prefix", n) for n in range(1, len(valid))]
    vals = range(256) if tier == "thorough" else QV
    if parsed:
        for i in range(len(valid)):
            for v in vals:
                if v != valid[i]:
                    fs.append(("corrupt", i, v))
    else:
        for i in range(0, len(valid), 5):
            for v in (0x00, 0xff):
                if v != valid[i]:
                    fs.append(("corrupt", i, v))
    # short replies made of one repeated byte, every byte value (whitespace, NUL, digits, ...): non-empty is non-empty
    for b in (range(256) if (tier == "thorough" or not parsed) else [0x00, 0x09, 0x0A, 0x0D, 0x20, 0x30, 0x80, 0xFF]):
        for n in (1, 2, 3):
            fs.append(("fill", n, b))
    lens = range(1, 1025) if tier == "thorough" else sorted(set(range(1, 50)) | {75, 76, 77, 81, 84, 92, 100, 101, 106, 107, 108, 255, 256, 511, 512, 1023, 1024})
    for n in lens:
        for b in (FILLS if (parsed or n < 50) else FILLS[:2]):
            fs.append(("fill", n, b))
    return fs


def all_cases(tier):
    cases = []
    for op in ALL_OPS:
        kinds = expected_shape(op)
        valid = valid_replies(op)
        for step, k in enumerate(kinds):
            parsed = k.startswith("login") or k in ("get_state1", "get_state2") or (tier == "thorough" and op == "get_schedules")
            seen_f = set()
            for f in faults_for(valid[step], tier, parsed):
                if f in seen_f:
                    continue
                seen_f.add(f)
                cases.append({"op": op, "faults": {str(step): list(f)}})
            # the same end-of-stream fault on a connection that has not yet completed any operation
            cases.append({"op": op, "faults": {str(step): ["eof"]}, "cold": True})
        for s1, s2 in itertools.combinations(range(len(kinds)), 2):
            for f1 in REDUCED:
                if f1[0] == "eof":
                    continue  # nothing after an end-of-stream can be answered differently
                for f2 in REDUCED:
                    cases.append({"op": op, "faults": {str(s1): list(f1), str(s2): list(f2)}})
    return cases


def jobs(tier, seed):
    n = 64 if tier == "thorough" else 16
    return [{"tier": tier, "i": i, "n": n} for i in range(n)]


class Runner:
    def __init__(self):
        set_zone("UTC")
        self.clock = Clock(1_700_000_000.0)
        self.clock.__enter__()
        self.w = {}

    def world(self, kind, fresh, cold=False):
        w = self.w.get(kind)
        if w is not None and (fresh or w.dirty):
            w.disconnect()
            w.__exit__(None, None, None)
            w = None
        if w is None:
            w = ApiWorld(kind)
            assert w.connect()[0] == "ok"
            w.dirty = False
            self.w[kind] = w
            if not cold:
                # a fresh connection first completes one ordinary operation, so that the fault meets a client
                # that has already logged in successfully once (state kept from that login must not matter)
                out, _, _ = w.run_op("control_on" if kind == 1 else "set_position")
                assert out[0] == "ok", out
        return w

    def run(self, case):
        op = case["op"]
        valid = valid_replies(op)
        script = []
        delivered = []
        needs_fresh = False
        for step in range(len(valid)):
            f = case["faults"].get(str(step))
            if f is None:
                script.append(valid[step])
                delivered.append(valid[step])
            else:
                r = make_reply(valid[step], tuple(f))
                script.append(r)
                raw = r[2] if isinstance(r, tuple) else r
                delivered.append(raw)
                if raw is None or len(raw) > 1024:
                    needs_fresh = True
        w = self.world(OPS[op][0], needs_fresh or bool(case.get("cold")), cold=bool(case.get("cold")))
        if needs_fresh:
            w.dirty = True
        out, writes, rx = w.run_op(op, script=script, state2_reply=None)
        if out[0] == "hang":
            w.dirty = True
        self.last_world = w
        return out, writes, delivered

    def follow_up(self, case, res):
        """After the device ended the stream: further calls on the same object still obey the property."""
        w = self.last_world
        kind = w.kind
        q = "get_state" if kind == 1 else "get_breeze_state"
        out, writes, _ = w.run_op(q)
        if out[0] != "exc" or not isinstance(out[1], RuntimeError):
            res.violation(f"state-query-after-eof:{type(out[1]).__name__ if out[0] == 'exc' else out[0]}", dict(case, follow_up=q),
                          f"{case['op']} with faults {case['faults']} ended the stream; a following {q} on the same object -> {out[0]} {out[1]!r}, expected RuntimeError",
                          "RuntimeError", repr(out[1]))
        g = "control_on" if kind == 1 else "set_position"
        out, writes, _ = w.run_op(g)
        okg = (out[0] == "exc" and isinstance(out[1], RuntimeError)) or (out[0] == "ok" and not out[1].successful)
        if not okg:
            res.violation(f"generic-after-eof:{type(out[1]).__name__ if out[0] == 'exc' else out[0]}", dict(case, follow_up=g),
                          f"{case['op']} with faults {case['faults']} ended the stream; a following {g} on the same object -> {out[0]} {out[1]!r}, expected RuntimeError or an unsuccessful response")

    def close(self):
        for w in self.w.values():
            w.disconnect()
            w.__exit__(None, None, None)
        self.clock.__exit__(None, None, None)


def effective_reads(delivered, nsteps):
    """What each of the client's reads (one per written frame, at most 1024 bytes) actually returned.

    The device answers frame k with delivered[k]; after it ended the stream nothing more arrives; bytes
    beyond 1024 stay buffered and are returned by the next read.
    """
    buf, eof, reads = b"", False, []
    for k in range(nsteps):
        if buf:
            # bytes left over from an over-long reply satisfy this read at once, before the device answers frame k
            reads.append(buf[:1024])
            buf = buf[1024:]
            arrived = True
        else:
            arrived = False
        if not eof and k < len(delivered):
            if delivered[k] is None:
                eof = True
            else:
                buf += delivered[k]
        if not arrived:
            reads.append(buf[:1024])
            buf = buf[1024:]
    return reads


def judge(case, out, writes, delivered, res):
    op = case["op"]
    kinds = expected_shape(op)
    nsteps = len(writes)  # replies actually consumed = frames written (each write is followed by one read)
    delivered = [r if r else None for r in effective_reads(delivered, max(nsteps, 1))]
    desc = f"{op} with faults {case['faults']}"
    if out[0] == "hang":
        res.violation(f"hang:{op}", case, f"{desc}: neither finished nor progressed")
        return False
    login_empty = delivered[0] is None
    type2 = OPS[op][0] == 2
    if login_empty and (op in STATE_QUERIES or type2):
        ok = True
        if out[0] != "exc" or not isinstance(out[1], RuntimeError):
            res.violation(f"empty-login-not-runtimeerror:{op}", case, f"{desc}: expected RuntimeError, got {out[0]} {out[1]!r}", "RuntimeError", repr(out[1]))
            ok = False
        if len(writes) != 1:
            res.violation(f"frame-after-empty-login:{op}", case, f"{desc}: {len(writes)} frames written after an empty login reply", 1, len(writes))
            ok = False
        return ok
    if op in STATE_QUERIES:
        if out[0] == "ok":
            if type(out[1]).__name__ != STATE_QUERIES[op]:
                res.violation(f"state-query-wrong-class:{op}", case, f"{desc}: returned {type(out[1]).__name__}", STATE_QUERIES[op], type(out[1]).__name__)
                return False
            res.outcome((op, "parsed"))
            return True
        if isinstance(out[1], RuntimeError):
            res.outcome((op, "RuntimeError"))
            return True
        res.violation(f"state-query-raises:{type(out[1]).__name__}", case, f"{desc}: raised {type(out[1]).__name__}: {out[1]}", "response or RuntimeError", repr(out[1]))
        return False
    if op == "get_schedules":
        res.outcome((op, out[0]))
        return None
    # generic operations
    if out[0] == "exc":
        e = out[1]
        last = delivered[nsteps - 1] if 0 < nsteps <= len(delivered) else b""
        embedded_state = op.startswith("breeze_") and nsteps == 2 and expected_shape(op)[1] == "get_state2"  # the thermostat state read inside control
        no_session = nsteps == 1 and (delivered[0] is None or len(delivered[0]) < 12)  # nothing to bind a command to
        if isinstance(e, RuntimeError) and (last is None or embedded_state or no_session or any(d is None for d in delivered[:nsteps])):
            res.outcome((op, "RuntimeError"))
            return True
        res.violation(f"generic-raises:{type(e).__name__}:{op}", case, f"{desc}: raised {type(e).__name__}: {e} after {nsteps} frames", "response", repr(e))
        return False
    r = out[1]
    if nsteps == 0 or nsteps > len(delivered):
        res.violation(f"generic-frame-count:{op}", case, f"{desc}: {nsteps} frames written", len(kinds), nsteps)
        return False
    last = delivered[nsteps - 1]
    nonempty = last is not None and len(last) > 0
    try:
        succ = r.successful
    except Exception as exc:  # noqa: BLE001
        res.violation(f"successful-raises:{op}", case, f"{desc}: .successful raised {exc!r}")
        return False
    if bool(succ) != nonempty:
        res.violation(f"success-flag:{'empty' if not nonempty else 'nonempty'}:{op}", case,
                      f"{desc}: final reply was {'empty' if not nonempty else str(len(last)) + ' bytes'}, response.successful={succ}", nonempty, succ)
        return False
    if nonempty and nsteps != len(kinds):
        res.violation(f"generic-frame-count:{op}", case, f"{desc}: returned success after {nsteps} of {len(kinds)} frames", len(kinds), nsteps)
        return False
    res.outcome((op, "success" if nonempty else "unsuccessful"))
    return True


def run_job(job):
    res = Res()
    cases = all_cases(job["tier"])[job["i"]::job["n"]]
    run = Runner()
    try:
        kept = {}  # per API object: the previous response and what it said when it was returned
        for case in cases:
            out, writes, delivered = run.run(case)
            ok = judge(case, out, writes, delivered, res)
            w = run.last_world
            prev = kept.get(id(w))
            if prev is not None:
                # a response object keeps saying what it said, whatever the client does afterwards
                pr, psucc, praw, pcase = prev
                try:
                    now = (bool(pr.successful), bytes(pr.unparsed_response or b""))
                except Exception as exc:  # noqa: BLE001
                    now = repr(exc)
                if now != (psucc, praw):
                    res.violation("response-changes-after-later-operation", {"op": pcase["op"], "faults": pcase["faults"], "then": case},
                                  f"the response of {pcase['op']} {pcase['faults']} said successful={psucc} ({len(praw)} bytes); after the next operation on the same client it says {now if isinstance(now, str) else (now[0], len(now[1]))}")
            if out[0] == "ok" and hasattr(out[1], "successful") and not getattr(w, "dirty", False):
                kept[id(w)] = (out[1], bool(out[1].successful), bytes(out[1].unparsed_response or b""), case)
            else:
                kept.pop(id(w), None)
            if None in w.conn.sent and not case.get("cold") and out[0] != "hang":
                run.follow_up(case, res)  # the device really ended the stream during this operation
            res.case((case["op"], case["faults"], case.get("cold")), nontrivial=ok is not None)
            res.counters["fault:" + next(iter(case["faults"].values()))[0]] += 1
            if len(res.samples) < 1 and len(case["faults"]) == 2:
                res.sample({"case": case, "outcome": out[0] + ":" + type(out[1]).__name__})
    finally:
        run.close()
    return res


def replay(case):
    res = Res()
    run = Runner()
    try:
        if "then" in case:
            first = {"op": case["op"], "faults": case["faults"]}
            out, writes, delivered = run.run(first)
            if out[0] == "ok":
                was = (bool(out[1].successful), bytes(out[1].unparsed_response or b""))
                run.run(case["then"])
                now = (bool(out[1].successful), bytes(out[1].unparsed_response or b""))
                if now != was:
                    res.violation("response-changes-after-later-operation", case, f"response said {was[0]}, now says {now[0]}")
            return res.violations
        out, writes, delivered = run.run(case)
        judge(case, out, writes, delivered, res)
        if case.get("follow_up"):
            run.follow_up(case, res)
    finally:
        run.close()
    return res.violations


def finalize(merged, tier, seed):
    return {"exhaustive": True, "space": "fault alphabet x every step of every operation as in rule; tier " + tier}
