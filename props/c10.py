"""C10 - listed schedules decode exactly; a created schedule reads back unchanged.

Through the real get_schedules / create_schedule on a socketpair connection, under a pinned wall
clock and the real tzset, in ten zones on dates that include offset-change days:
  * replies with 0..8 whole 16-byte records (distinct ids; plus duplicate-id families), slot ids
    0..255, all 127 day masks and the non-recurring mask, start and end over all 1440 minutes of
    the day (each with the other fixed, plus the corner grid squared);
  * round trip: the record captured from the real create_schedule frame is given a slot id by the
    reference device, padded to 16 bytes, listed back and parsed by the real get_schedules.
Oracle: one schedule per distinct id with id, recurrence flag, exact day set, local HH:MM start and
end per zoneinfo, duration = (end-start) mod 24h; empty reply -> empty set; round trip returns the
caller's start, end and days.
"""
import datetime
import itertools
import struct

from mc.apiworld import ApiWorld
from mc.core import HarnessError, Res
from mc.world import Clock, set_zone
from ref import replies as RP
from ref import zones as Z

ID = "C10"
LEVEL = "exploration"
RULE = (
    "per (zone, date): records x {ids 0..255, 128 masks, 1440 start minutes, 1440 end minutes, corner grid^2}, record counts "
    "0..8 with distinct and duplicate ids, and create->list round trips over (corner grid^2 + every 15th minute) x day sets; "
    "non-trivial = the reply held at least one record and the parsed set was compared; distinct by (zone, date, reply bytes)."
)
ASSUMPTIONS = [
    "zoneinfo is the oracle for local time; the library runs glibc's zone code through time.localtime/mktime",
    "with duplicate slot ids only one schedule per id is required, equal to one of the records carrying that id",
    "the display text of a schedule is C13's subject and not judged here",
    "in the round trip, start/end minutes that do not exist on that local date are skipped",
]

GRID = [0, 1, 59, 60, 599, 600, 719, 720, 721, 1380, 1438, 1439]
DAYNAMES = ["MONDAY", "TUESDAY", "WEDNESDAY", "THURSDAY", "FRIDAY", "SATURDAY", "SUNDAY"]


def hm(m):
    return "%02d:%02d" % divmod(m, 60)


def ref_duration(s, e):
    sm = int(s[:2]) * 60 + int(s[3:])
    em = int(e[:2]) * 60 + int(e[3:])
    return "%d:%02d:00" % divmod((em - sm) % 1440, 60)


def DAYSET_SENTINEL():
    from aioswitcher.schedule import Days

    return {Days.SUNDAY, Days.MONDAY}


def _disturb(resp):
    """A caller modifies the result it was given (where the result is mutable at all)."""
    for sch in list(resp.schedules):
        if hasattr(sch.days, "clear"):
            sch.days.clear()
            sch.days.update(DAYSET_SENTINEL())
    if hasattr(resp.schedules, "clear"):
        resp.schedules.clear()


def expect_record(zone, rec):
    slot, enabled, mask, state = rec[0], rec[1], rec[2], rec[3]
    start, end = struct.unpack("<II", rec[4:12])
    s, e = Z.local_hm(zone, start), Z.local_hm(zone, end)
    return {
        "schedule_id": str(slot),
        "recurring": mask != 0,
        "days": sorted(DAYNAMES[i] for i in range(7) if mask & (1 << (i + 1))),
        "start_time": s,
        "end_time": e,
        "duration": ref_duration(s, e),
    }


def observed(s):
    return {
        "schedule_id": s.schedule_id,
        "recurring": s.recurring,
        "days": sorted(d.name for d in s.days),
        "start_time": s.start_time,
        "end_time": s.end_time,
        "duration": s.duration,
    }


def jobs(tier, seed):
    js = []
    for zone in Z.ZONES:
        ds = Z.dates_for(zone, tier)
        if tier == "quick":
            # mid-year, each transition day and its neighbours are kept; year ends only for two zones
            ds = [d for d in ds if d.month not in (1, 12) or zone in ("UTC", "Pacific/Kiritimati")]
        # one job per zone and half of its dates (in sequence: state kept from one date to the next shows inside the job)
        for half in (ds[0::2], ds[1::2]):
            if half:
                js.append({"zone": zone, "dates": [d.isoformat() for d in half], "tier": tier})
    return js


class Runner:
    def __init__(self, zone, date):
        set_zone(zone)
        self.zone, self.date = zone, date
        self.clock = Clock(0.0)
        self.clock.__enter__()
        self.now = Z.epoch_at(zone, date, 12, 0, 0)
        self.clock.move_to(float(self.now) + (0.75 if date.day % 2 else 0.25))  # the fraction of the current second never matters
        import time as _t

        if _t.strftime("%Y-%m-%d %H") != f"{date.isoformat()} 12":
            raise HarnessError(f"virtual clock/zone not in effect for {zone} {date}")
        self.w = ApiWorld(1)
        assert self.w.connect()[0] == "ok"

    def close(self):
        self.w.disconnect()
        self.w.__exit__(None, None, None)
        self.clock.__exit__(None, None, None)

    def list(self, records, poke=()):
        out, writes, rx = self.w.run_op("get_schedules", script=[Ellipsis, RP.schedules(records, poke)])
        return out

    def create(self, start, end, days):
        out, writes, rx = self.w.run_op("create_schedule", {"start": start, "end": end, "days": days})
        return out, writes


def judge_listing(res, case, zone, records, out):
    if out[0] != "ok":
        res.violation("listing-raises", case, f"{zone} {case['date']}: get_schedules on {len(records)} whole records -> {out[0]} {out[1]!r}")
        return False
    scheds = out[1].schedules
    exp_by_id = {}
    for r in records:
        exp_by_id.setdefault(str(r[0]), []).append(expect_record(zone, r))
    ok = True
    if len(scheds) != len(exp_by_id) or {s.schedule_id for s in scheds} != set(exp_by_id):
        res.violation("listing-ids", case, f"{zone} {case['date']}: parsed ids {sorted(s.schedule_id for s in scheds)}, records carry {sorted(exp_by_id)}",
                      sorted(exp_by_id), sorted(s.schedule_id for s in scheds))
        return False
    if bool(out[1].found_schedules) != bool(records):
        res.violation("found-schedules-flag", case, f"found_schedules={out[1].found_schedules} for {len(records)} records")
        ok = False
    for s in scheds:
        got = observed(s)
        cands = exp_by_id[s.schedule_id]
        if got not in cands:
            diffs = [k for k in got if got[k] != cands[0][k]]
            res.violation("listing-field:" + (diffs[0] if diffs else "?"), case,
                          f"{zone} {case['date']}: schedule {s.schedule_id} parsed as {got}, the record says {cands[0]}", cands[0], got)
            ok = False
    return ok


def run_job(job):
    res = Res()
    for d in job["dates"]:
        run_date({"zone": job["zone"], "date": d, "tier": job["tier"]}, res)
    return res


def run_date(job, res):
    zone = job["zone"]
    date = datetime.date.fromisoformat(job["date"])
    tier = job["tier"]
    run = Runner(zone, date)
    base_day = run.now - 12 * 3600  # some instant about the start of the local day
    try:
        nlist = [0]

        def listing(records, tag):
            case = {"kind": "list", "zone": zone, "date": job["date"], "records": [r.hex() for r in records]}
            out = run.list(records)
            ok = judge_listing(res, case, zone, records, out)
            res.case(("list", zone, job["date"], tuple(records)), nontrivial=bool(records))
            nlist[0] += 1
            if ok and records and nlist[0] % 8 == 0:
                # what a caller does with the parsed result must not change what the next listing returns
                _disturb(out[1])
                case2 = dict(case, kind="relist")
                if not judge_listing(res, case2, zone, records, run.list(records)):
                    res.counters["relist_violations"] += 1
            return ok

        S0, E0 = base_day + 6 * 3600 + 15 * 60, base_day + 7 * 3600 + 45 * 60
        listing([], "empty")
        # header bytes of the reply (session echo, device timestamp, reserved) never move the records
        if date.month == 7:
            recs2 = [RP.schedule_record(2, 0x54, S0, E0), RP.schedule_record(5, 0x00, S0 + 3600, E0 + 60)]
            pokes = [[[off, v]] for off in range(4, 45) for v in (0xF0, 0xFE, 0xFF, 0x0A)]
            pokes += [[[off, 0xF0], [off + 1, 0xFE]] for off in range(4, 44)] + [[[off, 0xFE], [off + 1, 0xF0]] for off in range(4, 44)]
            for pk in pokes:
                case = {"kind": "list", "zone": zone, "date": job["date"], "records": [r.hex() for r in recs2], "poke": pk}
                judge_listing(res, case, zone, recs2, run.list(recs2, pk))
                res.case(("poke", zone, job["date"], repr(pk)))
        for slot in range(256):
            listing([RP.schedule_record(slot, 0x54, S0, E0)], "id")
        for mask in [0] + list(range(2, 256, 2)):
            listing([RP.schedule_record(3, mask, S0, E0)], "mask")
        step = 1 if (tier == "thorough" or date.month == 7 or date in Z.transition_days(zone)) else 5
        for m in range(0, 1440, step):
            listing([RP.schedule_record(1, 0x02, base_day + 60 * m, E0), RP.schedule_record(2, 0xFE, S0, base_day + 60 * m)], "minute")
        for a, b in itertools.product(GRID, GRID):
            listing([RP.schedule_record(7, 0x80, base_day + 60 * a, base_day + 60 * b)], "grid")
        # whole-day sweep around the local day (covers offset changes inside the day)
        for m in range(-120, 1560, 7):
            listing([RP.schedule_record(0, 0, base_day + 60 * m + 59, base_day + 60 * m + 3600)], "wide")
        # the bytes next to the day mask (enabled flag, state) and the record's tail, in every combination with the mask:
        # a switched-off one-time schedule (all three zero, in slot 0 the record even starts with four zero bytes) is a schedule
        for slot, en, mask, st, tail in itertools.product((0, 3), (0, 1, 2, 0xFF), (0, 0x02, 0xFE), (0, 1, 2, 0xFF), (b"\xce\x0e\x00\x00", bytes(4), b"\xff" * 4)):
            listing([RP.schedule_record(slot, mask, S0, E0, enabled=en, state=st, tail=tail)], "flags")
        listing([RP.schedule_record(i, 0, S0 + 60 * i, E0, enabled=0, state=0, tail=bytes(4)) for i in range(4)], "flags")
        for n in range(0, 9):
            recs = [RP.schedule_record(i, (2 << i) & 0xFE or 2, S0 + 600 * i, E0 + 900 * i, enabled=i % 2, state=(i + 1) % 2) for i in range(n)]
            listing(recs, "count")
            if n >= 2:
                listing(list(reversed(recs)), "count-rev")
                dup = recs[:-1] + [RP.schedule_record(0, 0x10, S0 + 60, E0 + 60)]
                listing(dup, "dup")
                listing([recs[0]] * n, "same")
        # round trip create -> list
        D = list(range(7))
        sets = [c for r in range(0, 8) for c in itertools.combinations(D, r)]
        mins = sorted(set(GRID) | set(range(0, 1440, 15)))
        pairs = [(a, b) for a in GRID for b in GRID] + [(m, (m * 7 + 13) % 1440) for m in mins]
        for pi, (a, b) in enumerate(pairs):
            if not Z.local_to_epochs(zone, date, a // 60, a % 60) or not Z.local_to_epochs(zone, date, b // 60, b % 60):
                res.counters["roundtrip_nonexistent_minute_skipped"] += 1
                continue
            for days in (sets if (tier == "thorough" or pi % 48 == 0) else sets[pi % 16::16]):
                case = {"kind": "roundtrip", "zone": zone, "date": job["date"], "start": hm(a), "end": hm(b), "days": list(days)}
                roundtrip(res, run, case)
        res.outcome(zone)
        if date.month == 7:
            res.sample({"zone": zone, "date": job["date"], "record": RP.schedule_record(3, 0x54, S0, E0).hex(), "expected": expect_record(zone, RP.schedule_record(3, 0x54, S0, E0))})
    finally:
        run.close()
    return res


def roundtrip(res, run, case):
    out, writes = run.create(case["start"], case["end"], case["days"])
    zone = case["zone"]
    res.case(("rt", zone, case["date"], case["start"], case["end"], tuple(case["days"])), nontrivial=out[0] == "ok")
    if out[0] != "ok" or len(writes) != 2:
        res.violation("roundtrip-create-fails", case, f"{zone} {case['date']}: create_schedule({case['start']}, {case['end']}, {case['days']}) -> {out[0]} {out[1]!r}")
        return
    body = writes[1][40:-4]
    created = body[3 + 36 + 5:]
    if len(created) != 11:
        res.violation("roundtrip-record-size", case, f"create_schedule emitted a {len(created)}-byte record: {created.hex()}")
        return
    mask, start, end = created[1], created[3:7], created[7:11]
    rec = bytes([5, created[0], mask, created[2]]) + start + end + b"\xce\x0e\x00\x00"
    lout = run.list([rec])
    if lout[0] != "ok" or len(lout[1].schedules) != 1:
        res.violation("roundtrip-listing-fails", case, f"{zone} {case['date']}: listing the created record -> {lout[0]} {lout[1]!r}")
        return
    s = next(iter(lout[1].schedules))
    got = (s.start_time, s.end_time, sorted(d.name for d in s.days))
    want = (case["start"], case["end"], sorted(DAYNAMES[i] for i in case["days"]))
    if got != want:
        which = "start" if got[0] != want[0] else ("end" if got[1] != want[1] else "days")
        res.violation(f"roundtrip-{which}", case, f"{zone} {case['date']}: created {want}, read back {got} (record {rec.hex()})", want, got)


def replay(case):
    res = Res()
    date = datetime.date.fromisoformat(case["date"])
    run = Runner(case["zone"], date)
    try:
        if case["kind"] in ("list", "relist"):
            records = [bytes.fromhex(r) for r in case["records"]]
            out = run.list(records, case.get("poke") or ())
            if case["kind"] == "relist" and out[0] == "ok":
                _disturb(out[1])
                out = run.list(records)
            judge_listing(res, case, case["zone"], records, out)
        else:
            roundtrip(res, run, case)
    finally:
        run.close()
    return res.violations


def finalize(merged, tier, seed):
    return {"exhaustive": True, "zones": Z.ZONES, "space": "per (zone, date) sweeps as in rule; tier " + tier}
