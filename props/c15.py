"""C15 - the IR command built is the stored code that best matches the request.

Generated IR sets (ref/irset.py; every wave's text names its own key, so the payload reveals which
entry was chosen) x every request (power, mode, temperature 0..60, fan, swing, previous power) are
pushed through the real SwitcherBreezeRemote.build_command and compared with the reference
selection model; the payload must be 00 00 00 00 + ASCII 'Para|HexCode' and the length field its
little-endian 16-bit byte length.  Also: capabilities read off the set, the separate swing command,
code texts of every length 1..2000, and the remote manager (load + cache) over all call sequences
of length <= 3.
"""
import itertools
import json
import os
import re
import shutil
import struct
import tempfile

from mc.core import Res
from ref import irset as IR

ID = "C15"
LEVEL = "exploration"
RULE = (
    "IR sets = toggle x remote id (ordinary + separate-swing ids) x supported-mode sets x key coverage (every non-empty "
    "subset of {base,+fan,+fan+swing}, independently for plain and on_-prefixed keys) x temperature ranges; requests = "
    "2 powers x 5 modes x temperatures (thorough 0..60, quick 9 corners) x 4 fans x 2 swings x previous power {none,on,off}. "
    "non-trivial = build_command returned a payload that was decoded and its key compared, or raised as the model requires; "
    "distinct by (set parameters, request)."
)
ASSUMPTIONS = [
    "IR sets are generated (the vendor database is empty in this tree); keys follow the vendor grammar documented in ref/irset.py",
    "an unsupported mode is refused for every request, also for a plain power-off on a non-toggle remote (the statement makes no exception)",
    "when no candidate key exists any exception is accepted; sets contain no bare mode keys beyond the candidate list",
    "temperatures are two-digit in generated keys (10..99)",
]

ALL_MODES = ("auto", "dry", "fan", "cool", "heat")
MODE_SETS = [ALL_MODES, ("auto", "dry", "fan"), ("cool", "heat"), ("cool",), ("heat", "fan"), ("auto",), ("dry",), ("fan",), ("heat",)]
COVS = [c for r in (1, 2, 3) for c in itertools.combinations(("base", "fan", "swing"), r)]
RANGES = [(16, 30), (18, 26), (24, 24)]
FANS = ("auto", "low", "medium", "high")


def set_params(tier):
    ps = []
    ids = ("ELEC7001",) + (IR.SPECIAL_SWING_IDS[:2] if tier == "thorough" else ("ELEC7022",))
    msets = MODE_SETS if tier == "thorough" else MODE_SETS[:4]
    ranges = RANGES if tier == "thorough" else (RANGES[0], RANGES[2])
    for rid in ids:
        for modes in msets:
            for (tmin, tmax) in ranges:
                if not set(modes) & set(IR.TEMP_MODES) and (tmin, tmax) != ranges[0]:
                    continue
                for cov in COVS:
                    ps.append(dict(remote_id=rid, toggle=False, modes=modes, tmin=tmin, tmax=tmax, coverage=cov, on_coverage=()))
                    oncovs = COVS if (tier == "thorough" and rid in ("ELEC7001", "ELEC7022")) else ([cov, ("base",), ("swing",), ("fan", "swing")] if tier == "thorough" else [cov, ("base",), ("fan", "swing")])
                    for oc in oncovs:
                        ps.append(dict(remote_id=rid, toggle=True, modes=modes, tmin=tmin, tmax=tmax, coverage=cov, on_coverage=oc))
    # key coverage that is not uniform across temperatures and modes (sparse for odd temperatures, dry and fan)
    for rid in ids[:2]:
        for toggle in (False, True):
            for cov, odd in ((("base", "fan", "swing"), ("base",)), (("base", "fan", "swing"), ("base", "fan")), (("base", "fan"), ("base", "fan", "swing")),
                             (("fan", "swing"), ("fan",)), (("base",), ("base", "fan", "swing")), (("base", "swing"), ("fan",))):
                ps.append(dict(remote_id=rid, toggle=toggle, modes=ALL_MODES, tmin=16, tmax=30, coverage=cov, on_coverage=cov if toggle else (), odd_coverage=odd))
    # every separate-swing id once (the flag is read off the id), and sets with entries no request may select
    for rid in IR.SPECIAL_SWING_IDS + ("ELEC7001", "ZM079056", "ELEC702", "zm079055"):
        ps.append(dict(remote_id=rid, toggle=False, modes=ALL_MODES, tmin=20, tmax=22, coverage=("base", "fan", "swing"), on_coverage=()))
    for rid in ids[:2]:
        for toggle in (False, True):
            for cov in (("base",), ("base", "fan"), ("fan",), ("base", "swing")):
                ps.append(dict(remote_id=rid, toggle=toggle, modes=ALL_MODES, tmin=16, tmax=30, coverage=cov, on_coverage=cov if toggle else (), distractors=True))
    # the same entries listed in another order (descending temperatures, starting in the middle)
    for rid in ids[:2]:
        for toggle in (False, True):
            for order in ("desc", "rot"):
                for (tmin, tmax) in ((16, 30), (24, 24), (20, 21)):
                    for cov in (("base", "fan", "swing"), ("base",)):
                        ps.append(dict(remote_id=rid, toggle=toggle, modes=ALL_MODES, tmin=tmin, tmax=tmax, coverage=cov, on_coverage=cov if toggle else (), order=order))
    # sets without an 'off' entry / with fewer fan levels
    ps.append(dict(remote_id="ELEC7001", toggle=False, modes=ALL_MODES, tmin=16, tmax=30, coverage=("base", "fan", "swing"), on_coverage=(), with_off=False))
    ps.append(dict(remote_id="ELEC7001", toggle=False, modes=ALL_MODES, tmin=16, tmax=30, coverage=("fan", "swing"), on_coverage=(), fans=("auto", "high")))
    ps.append(dict(remote_id="ELEC7022", toggle=True, modes=ALL_MODES, tmin=17, tmax=29, coverage=("fan",), on_coverage=("fan", "swing"), fans=("low",)))
    return ps


def temps(tier):
    return list(range(0, 61)) if tier == "thorough" else [0, 1, 15, 16, 17, 24, 29, 30, 31, 60]


def jobs(tier, seed):
    n = 64 if tier == "thorough" else 16
    js = [{"part": "select", "tier": tier, "i": i, "n": n} for i in range(n)]
    js.append({"part": "lengths", "tier": tier})
    js.append({"part": "manager", "tier": tier})
    return js


def _enums():
    from aioswitcher import device as d

    return {
        "state": {True: d.DeviceState.ON, False: d.DeviceState.OFF, None: None},
        "mode": {m.display: m for m in d.ThermostatMode},
        "fan": {f.display: f for f in d.ThermostatFanLevel},
        "swing": {True: d.ThermostatSwing.ON, False: d.ThermostatSwing.OFF},
    }


def decode_payload(cmd):
    """-> (text, problems)"""
    probs = []
    try:
        raw = bytes.fromhex(cmd.command)
    except ValueError:
        return None, ["payload is not hex"]
    if raw[:4] != bytes(4):
        probs.append(f"payload starts with {raw[:4].hex()}, expected 00000000")
    try:
        text = raw[4:].decode("ascii")
    except UnicodeDecodeError:
        return None, probs + ["payload text is not ASCII"]
    want = struct.pack("<H", len(raw)).hex()
    if cmd.length != want:
        probs.append(f"length field {cmd.length!r}, expected {want!r} for {len(raw)} payload bytes")
    return text, probs


LAST = {"kind": None}


def check_request(remote, ir_set, params, req, E, res):
    on, mode, temp, fan, swing, prev = req
    case = {"kind": "select", "params": params, "req": list(req)}
    exp = IR.select(ir_set, on, mode, temp, fan, swing, prev)
    LAST["kind"] = exp[0]
    try:
        cmd = remote.build_command(E["state"][on], E["mode"][mode], temp, E["fan"][fan], E["swing"][swing], E["state"][prev])
        raised = None
    except Exception as exc:  # noqa: BLE001
        cmd, raised = None, exc
    tag = f"set(id={params['remote_id']}, toggle={params['toggle']}, modes={list(params['modes'])}, temps={params['tmin']}-{params['tmax']}, cov={list(params['coverage'])}/{list(params['on_coverage'])}) request(power={'on' if on else 'off'}, {mode}, {temp}, fan {fan}, swing {'on' if swing else 'off'}, previous={prev})"

    def unsupported_ok(modes):
        if not isinstance(raised, Exception):
            return False
        named = set(re.findall(r"[a-z]+", str(raised).lower())) & set(ALL_MODES)
        named.discard(mode)
        return named == set(modes)

    if exp[0] == "unsupported-mode":
        if not unsupported_ok(exp[1]):
            res.violation("unsupported-mode-not-refused", case, f"{tag}: expected an error naming {exp[1]}, got {raised!r} / {cmd and cmd.command[:40]}", exp[1], repr(raised))
            return False
        res.outcome("unsupported")
        return True
    if exp[0] == "no-entry":
        if raised is None:
            text, _ = decode_payload(cmd)
            res.violation("some-other-code-sent", case, f"{tag}: none of {exp[1]} exists, but a command was built: {text!r}", "exception", text)
            return False
        res.outcome("no-entry")
        return True
    if exp[0] == "either":
        if raised is not None:
            if not unsupported_ok(exp[2]):
                res.violation("off-or-unsupported", case, f"{tag}: expected the 'off' code or RuntimeError naming {exp[2]}, got {raised!r}")
                return False
            return None
        want_key = exp[1]
    else:
        want_key = exp[1]
    if raised is not None:
        res.violation(f"request-refused:{type(raised).__name__}", case, f"{tag}: expected the code stored under {want_key!r}, raised {raised!r}", want_key, repr(raised))
        return False
    text, probs = decode_payload(cmd)
    if text is None or IR.key_of_text(text) != want_key:
        res.violation("wrong-code-selected", case, f"{tag}: expected the code stored under {want_key!r}, payload carries {IR.key_of_text(text) if text else None!r} ({probs})", want_key, text)
        return False
    if text != IR.text_of(want_key, params.get("pad", 0)):
        res.violation("payload-text", case, f"{tag}: payload text {text!r} is not Para|HexCode of {want_key!r}", IR.text_of(want_key), text)
        return False
    for p in probs:
        res.violation("payload-length-field" if "length" in p else "payload-prefix", case, f"{tag}: {p}")
        return False
    res.outcome(("key", want_key.startswith("on_"), want_key.count("_")))
    return True


def check_caps(remote, ir_set, params, res):
    caps = IR.capabilities(ir_set)
    case = {"kind": "caps", "params": params}
    got_modes = {m.display for m in remote.supported_modes}
    ok = True
    if got_modes != caps["modes"] or len(remote.supported_modes) != len(got_modes):
        res.violation("capabilities:modes", case, f"supported modes {sorted(got_modes)}, the set has {sorted(caps['modes'])}", sorted(caps["modes"]), sorted(got_modes))
        ok = False
    if caps["tmin"] is not None and (remote.min_temperature, remote.max_temperature) != (caps["tmin"], caps["tmax"]):
        res.violation("capabilities:temperature-range", case, f"range {remote.min_temperature}-{remote.max_temperature}, the set has {caps['tmin']}-{caps['tmax']}", [caps["tmin"], caps["tmax"]], [remote.min_temperature, remote.max_temperature])
        ok = False
    if remote.on_off_type is not caps["toggle"]:
        res.violation("capabilities:toggle", case, f"on_off_type {remote.on_off_type}, set says {caps['toggle']}", caps["toggle"], remote.on_off_type)
        ok = False
    if remote.separated_swing_command is not caps["separate_swing"]:
        res.violation("capabilities:separate-swing", case, f"separated_swing_command {remote.separated_swing_command} for {params['remote_id']}", caps["separate_swing"], remote.separated_swing_command)
        ok = False
    if remote.remote_id != params["remote_id"]:
        res.violation("capabilities:remote-id", case, f"remote_id {remote.remote_id!r}", params["remote_id"], remote.remote_id)
        ok = False
    # separate swing command
    E = _enums()
    keys = IR.keys_of(ir_set)
    for sw, key in ((True, "FUN_d1"), (False, "FUN_d0")):
        try:
            cmd = remote.build_swing_command(E["swing"][sw])
            text, probs = decode_payload(cmd)
            if key not in keys:
                res.violation("swing-command-invented", case, f"build_swing_command({sw}) returned {text!r} but {key} is not in the set")
                ok = False
            elif text != IR.text_of(key) or probs:
                res.violation("swing-command-payload", case, f"build_swing_command({sw}) payload {text!r} {probs}", IR.text_of(key), text)
                ok = False
        except Exception as exc:  # noqa: BLE001
            if key in keys:
                res.violation("swing-command-refused", case, f"build_swing_command({sw}) raised {exc!r} although {key} exists")
                ok = False
    return ok


def build(params):
    from aioswitcher.api.remotes import SwitcherBreezeRemote

    kw = {k: v for k, v in params.items() if k not in ("remote_id",)}
    kw["modes"] = tuple(kw["modes"])
    kw["coverage"] = tuple(kw["coverage"])
    kw["on_coverage"] = tuple(kw["on_coverage"])
    if "fans" in kw:
        kw["fans"] = tuple(kw["fans"])
    if kw.get("odd_coverage") is not None:
        kw["odd_coverage"] = tuple(kw["odd_coverage"])
    ir_set = IR.make_set(params["remote_id"], **kw)
    return SwitcherBreezeRemote(json.loads(json.dumps(ir_set))), ir_set


def requests(tier):
    return list(itertools.product((True, False), ALL_MODES, temps(tier), FANS, (True, False), (None, True, False)))


def check_lengths(res, tier):
    """Code texts of every length: payload = 4 + L bytes, length field little-endian."""
    from aioswitcher import device as d
    from aioswitcher.api.remotes import SwitcherBreezeRemote

    for L in range(1, 2001):
        waves = [{"Key": "ad", "Para": "p", "HexCode": "h"}]
        for key in ("off", "FUN_d1"):
            waves.append({"Key": key, "Para": "", "HexCode": "x" * (L - 1)})
        rem = SwitcherBreezeRemote({"IRSetID": "ELEC7022", "OnOffType": 0, "IRWaveList": waves})
        for which in ("main", "swing"):
            case = {"kind": "length", "L": L, "which": which}
            try:
                cmd = rem.build_command(d.DeviceState.OFF, d.ThermostatMode.DRY, 20, d.ThermostatFanLevel.LOW, d.ThermostatSwing.OFF) if which == "main" else rem.build_swing_command(d.ThermostatSwing.ON)
            except Exception as exc:  # noqa: BLE001
                res.violation("length-sweep-raises", case, f"IR text of {L} bytes: {exc!r}")
                continue
            text, probs = decode_payload(cmd)
            res.case(("len", L, which))
            if text != "|" + "x" * (L - 1):
                res.violation("payload-text", case, f"IR text of {L} bytes came out as {text[:30] if text else None!r}..")
            for p in probs:
                res.violation("payload-length-field" if "length" in p else "payload-prefix", case, f"IR text of {L} bytes ({which}): {p}")
    # the stored text is sent as it is stored: white space, separators and non-hex characters at either end or inside
    odd = [" p", "p ", "\tp\t", "\np", "p\r\n", "  ", " ", "|", "p|q", "P.x ", "p\x00", "\x7fp", "0x1F", "ABCDEF", "abcdef", "%s", "{}", "\\n", "'p'", "p\x0b", "\x0cp"]
    for para in odd:
        for hexcode in odd[:12] + ["h"]:
            waves = [{"Key": "ad", "Para": "p", "HexCode": "h"}]
            for key in ("off", "FUN_d1", "aa"):
                waves.append({"Key": key, "Para": para, "HexCode": hexcode})
            case = {"kind": "verbatim", "para": para, "hexcode": hexcode}
            try:
                rem = SwitcherBreezeRemote({"IRSetID": "ELEC7022", "OnOffType": 0, "IRWaveList": waves})
                cmds = {"main-off": rem.build_command(d.DeviceState.OFF, d.ThermostatMode.DRY, 20, d.ThermostatFanLevel.LOW, d.ThermostatSwing.OFF),
                        "swing": rem.build_swing_command(d.ThermostatSwing.ON),
                        "main-on": rem.build_command(d.DeviceState.ON, d.ThermostatMode.AUTO, 20, d.ThermostatFanLevel.LOW, d.ThermostatSwing.OFF)}
            except Exception as exc:  # noqa: BLE001
                res.violation("verbatim-text-raises", case, f"IR entry Para={para!r} HexCode={hexcode!r}: {exc!r}")
                continue
            want = para + "|" + hexcode
            for which, cmd in cmds.items():
                res.case(("verbatim", para, hexcode, which))
                text, probs = decode_payload(cmd)
                if text != want:
                    res.violation("payload-text-not-verbatim", dict(case, which=which), f"IR entry Para={para!r} HexCode={hexcode!r} ({which}): payload carries {text[:40] if text is not None else None!r}, the stored text is {want[:40]!r}", want, text)
                for pr in probs:
                    res.violation("payload-length-field" if "length" in pr else "payload-prefix", dict(case, which=which), f"IR entry Para={para!r} HexCode={hexcode!r} ({which}): {pr}")
    res.sample({"kind": "length", "L": 300, "expected_length_field": struct.pack("<H", 304).hex()})


def check_manager(res):
    from aioswitcher.api.remotes import SwitcherBreezeRemoteManager

    tmp = tempfile.mkdtemp(prefix="aiosw-c15-", dir="/dev/shm" if os.path.isdir("/dev/shm") else None)
    try:
        sets = {
            "ELEC7001": IR.make_set("ELEC7001", toggle=False),
            "ELEC7022": IR.make_set("ELEC7022", toggle=True, tmin=18, tmax=26),
            "ZM079055": IR.make_set("ZM079055", toggle=False, modes=("cool",), tmin=24, tmax=24),
        }
        path = os.path.join(tmp, "irset_db.json")
        with open(path, "w") as fh:
            json.dump(sets, fh)
        ids = list(sets) + ["NOPE0000"]
        for n in (1, 2, 3):
            for seq in itertools.product(ids, repeat=n):
                mgr = SwitcherBreezeRemoteManager(path)
                seen = {}
                case = {"kind": "manager", "seq": list(seq)}
                res.case(("mgr", seq))
                for rid in seq:
                    try:
                        r = mgr.get_remote(rid)
                    except Exception as exc:  # noqa: BLE001
                        if rid in sets:
                            res.violation("manager-refuses-known-id", case, f"get_remote({rid}) raised {exc!r}")
                        continue
                    if rid not in sets:
                        res.violation("manager-invents-remote", case, f"get_remote({rid}) returned {r!r}")
                        continue
                    caps = IR.capabilities(sets[rid])
                    if r.remote_id != rid or r.on_off_type is not caps["toggle"] or (r.min_temperature, r.max_temperature) != (caps["tmin"], caps["tmax"]) or {m.display for m in r.supported_modes} != caps["modes"]:
                        res.violation("manager-wrong-set", case, f"get_remote({rid}) returned remote {r.remote_id} toggle={r.on_off_type} range={r.min_temperature}-{r.max_temperature}")
                    if rid in seen and seen[rid] is not r:
                        res.violation("manager-not-cached", case, f"get_remote({rid}) returned a different object on repeat")
                    seen[rid] = r
        res.sample({"kind": "manager", "seq": ["ELEC7022", "ELEC7001", "ELEC7022"]})
    finally:
        shutil.rmtree(tmp, ignore_errors=True)


def run_job(job):
    res = Res()
    if job["part"] == "lengths":
        check_lengths(res, job["tier"])
        return res
    if job["part"] == "manager":
        check_manager(res)
        return res
    E = _enums()
    reqs = requests(job["tier"])
    for params in set_params(job["tier"])[job["i"]::job["n"]]:
        remote, ir_set = build(params)
        res.case(("caps", params), nontrivial=check_caps(remote, ir_set, params, res))
        pk = repr(sorted(params.items()))
        prev_ok = True
        for ri, req in enumerate(reqs):
            ok = check_request(remote, ir_set, params, req, E, res)
            res.evals += 1
            if ok is not None:
                res.kcount += 1  # (params, req) pairs are distinct by construction
            if (LAST["kind"] != "key" and ri % 5 == 0) or ri % 23 == 0:
                # asked again right away (after a refusal, or every 23rd request): the answer is the same
                check_request(remote, ir_set, params, req, E, res)
                res.evals += 1
        if len(res.samples) < 1:
            res.sample({"set": params, "request": ["on", "cool", 31, "high", "swing on", "previous off"], "expected_key": IR.select(ir_set, True, "cool", 31, "high", True, False)})
    return res


def replay(case):
    res = Res()
    if case["kind"] == "length":
        check_lengths(res, "quick")
        res.violations = [v for v in res.violations if v["case"].get("L") == case["L"] and v["case"].get("which") == case["which"]]
    elif case["kind"] == "verbatim":
        check_lengths(res, "quick")
        res.violations = [v for v in res.violations if all(v["case"].get(k) == case.get(k) for k in ("kind", "para", "hexcode", "which"))]
    elif case["kind"] == "manager":
        check_manager(res)
    else:
        remote, ir_set = build(case["params"])
        if case["kind"] == "caps":
            check_caps(remote, ir_set, case["params"], res)
        else:
            check_request(remote, ir_set, case["params"], tuple(case["req"]), _enums(), res)
    return res.violations


def finalize(merged, tier, seed):
    return {"exhaustive": True, "ir_sets": len(set_params(tier)), "requests_per_set": len(requests(tier)), "space": "sets x requests as in rule; tier " + tier}
