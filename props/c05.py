"""C05 - a status broadcast is decoded into exactly the device the sender described.

A real SwitcherBridge listens on a real UDP port; datagrams built by the reference encoder
(ref/broadcast.py: real captures with fields placed at the protocol offsets) are sent over
loopback and the device object handed to the callback is compared field by field.  For all 9
device types and both states every field is swept over its whole domain against base values of
the others, plus pairwise corner values, plus the OFF normalisation (state x power x remaining).
"""
import itertools

from mc.bridgeworld import BridgeWorld
from mc.core import Res
from mc.world import Clock, set_zone
from ref import broadcast as B

ID = "C05"
LEVEL = "exploration"
RULE = (
    "for each of the 9 device types: device id (each byte over all values), key 0..255, IPv4 (each byte), MAC (each byte), names of "
    "1..32 UTF-8 bytes over 1-4 byte code points, watts 0..65535, remaining and auto-shutdown 0..86399, position 0..100 x 3 "
    "directions, 2 powers x 5 modes x 4 fans x 2 swings, temperature 0..65535 tenths, target 0..255, 8-character remote ids; pairwise "
    "corners; OFF normalisation grid. quick strides the 16-bit/86400 domains and uses 24 byte values for one type per family, thorough "
    "runs full domains on all types. non-trivial = exactly one device was delivered and compared; distinct by (type, encoded fields)."
)
ASSUMPTIONS = [
    "bytes outside the modelled fields are swept too and must not influence the decoded device (byte 136 of shutter frames is left alone: the pinned decoder reads it as a decimal supplement of the position, which the statement does not describe)",
    "reference encoder = real captures with fields at protocol offsets; the three captures re-encode byte for byte from their legible values",
    "last_data_update and attributes not named in the statement are ignored; a shutter's on/off state is not judged",
    "amps judged as |amps - watts/220| <= 0.05 with one decimal",
    "loopback UDP from one sender to one socket is FIFO and lossless for batches of 32 datagrams",
]

QV = sorted({0, 1, 2, 4, 8, 15, 16, 32, 64, 127, 128, 129, 160, 170, 200, 240, 254, 255, 0x30, 0x61, 0x0a, 0x99, 0xf0, 0xfe})
T_CORN = [0, 1, 59, 60, 255, 256, 3599, 3600, 3601, 65535, 65536, 86399]
W_CORN = [0, 1, 219, 220, 255, 256, 2600, 32767, 32768, 65535]
CH = {1: "a", 2: "ש", 3: "€", 4: "\U0001F600"}


def names():
    out = []
    for L in range(1, 33):
        out.append("a" * L)
        for w in (2, 3, 4):
            k = L // w
            if k:
                out.append("a" * (L - k * w) + CH[w] * k)
                out.append(CH[w] + "a" * (L - w))
    out += ["Boiler 100%", "50% off", "%s", "%(name)s %d", "{}", "{0!r}", "a\\nb", "${HOME}", "\ufeffPorch plug", "\ufeff", "a\ufeff", "\u200fBoiler", "Boiler\u200e", "\u200b", "\ufffeX", "\x7f\x01", "My Switcher Boiler", "Switcher Breeze_5679", "בוילר ראשי", "café", "x", "a b", "Tab\there",
            # names that are not in a composed normal form: the bytes the device sent are the name
            "e\u0301te\u0301", "\u212b ngstrom", "\u2126 heater", "\u212a", "\ufb2a\u05dc\u05d5\u05dd", "\u05e9\u05c1\u05dc\u05d5\u05dd", "a\u0301\u0323", "a\u0323\u0301",
            "\uf900", "\U0001d15e", "\u1e9b\u0323", "\u00e9 and e\u0301", "\uff21\uff22", "\u2460 first", "\ufb01re", "I\u0307", "\u0130stanbul", "\u00df", "\u1e9e"]
    seen, res = set(), []
    for n in out:
        if n not in seen and 0 < len(n.encode()) <= 32:
            seen.add(n)
            res.append(n)
    return res


def strided(n, step, corners):
    return sorted(set(range(0, n, step)) | {c for c in corners if c < n} | {n - 1})


def background(seed):
    """Base values of the fields that are not being swept, picked by VERIF_SEED."""
    ids = ["a1b2c3", "3c4d5e", "0102ff", "f0e1d2", "00ff10", "7e8081"]
    return {
        "device_id": ids[seed % len(ids)],
        "key": [0x18, 0x00, 0xFF, 0xA5, 0x07][(seed // 2) % 5],
        "ip": [[10, 20, 30, 40], [192, 168, 1, 33], [172, 16, 254, 1], [1, 2, 3, 4]][(seed // 3) % 4],
        "mac": [[0x02, 0x13, 0x24, 0x35, 0x46, 0x57], [0xBC, 0xFF, 0x4D, 0x4A, 0x56, 0x79], [0xFE, 0xDC, 0xBA, 0x98, 0x76, 0x54]][(seed // 5) % 3],
    }


def cases_for(tname, tier, primary, seed=0):
    """Field dicts for one device type. `primary` types get the wide sweeps in quick."""
    fam = B.TYPES[tname][1]
    bg = background(seed)
    full = tier == "thorough"
    wide = full or primary
    bv = list(range(256)) if full else QV
    cs = [{}]
    base_id = bytes.fromhex(bg["device_id"])
    for pos in range(3):
        for v in bv:
            d = bytearray(base_id)
            d[pos] = v
            cs.append({"device_id": bytes(d).hex()})
    for v in (range(256) if wide else bv):
        cs.append({"key": v})
    for pos in range(4):
        for v in bv:
            ip = list(bg["ip"])
            ip[pos] = v
            cs.append({"ip": ip})
    for pos in range(6):
        for v in bv:
            mac = list(bg["mac"])
            mac[pos] = v
            cs.append({"mac": mac})
    for n in (names() if wide else names()[::9]):
        cs.append({"name": n})
    for on in (True, False):
        cs.append({"on": on})
    if fam in ("heater", "plug"):
        W = range(65536) if full else (strided(65536, 17, W_CORN) if primary else strided(65536, 257, W_CORN))
        T = range(86400) if full else (strided(86400, 13, T_CORN) if primary else strided(86400, 199, T_CORN))
        for w in W:
            cs.append({"watts": w, "on": True})
        if fam == "heater":
            for t in T:
                cs.append({"remaining": t, "on": True})
                cs.append({"auto_off": t, "on": t % 2 == 0})
            for a, b in itertools.product(T_CORN, T_CORN):
                cs.append({"remaining": a, "auto_off": b, "on": True})
        for on, w, t in itertools.product((True, False), W_CORN, T_CORN):
            cs.append({"on": on, "watts": w, "remaining": t})
        # an OFF device may carry any stale counter: it is reported as zero whatever the field holds
        for t in (86400, 86401, 90000, 1 << 24, 1 << 31, (1 << 32) - 1):
            for w in (0, 2600, 65535):
                cs.append({"on": False, "watts": w, "remaining": t})
    elif fam == "runner":
        for p in range(101):
            for d in ("stop", "up", "down"):
                cs.append({"position": p, "direction": d})
    else:
        for on, m, f, s in itertools.product((True, False), B.MODES, B.FANS, (True, False)):
            for temp, target in ((281, 24), (0, 0), (65535, 255), (256, 16)):
                cs.append({"on": on, "mode": m, "fan": f, "swing": s, "temp": temp, "target": target})
        for t in (range(65536) if full else strided(65536, 17, [0, 1, 9, 10, 255, 256, 281, 1000, 32767, 32768])):
            cs.append({"temp": t})
        for t in range(256):
            cs.append({"target": t, "temp": (t * 257) & 0xFFFF})
        for r in ("ELEC7022", "ELEC7001", "ZM079055", "DLK21234", "00000000", "AbCdEfGh", "12345678", "ZZZZZZZZ"):
            cs.append({"remote": r})
            cs.append({"remote": r, "on": False, "mode": "heat"})
    # bytes that carry no modelled field (reserved / unknown to the protocol description) must not matter
    n = {"heater": 165, "plug": 165, "breeze": 168, "runner": 159}[fam]
    mod = B.modelled_offsets(tname)
    for off in range(4, n - 4):
        if off not in mod:
            for v in ((0x01, 0x80, 0xFF) if wide else (0xFF,)):
                cs.append({"poke": [[off, v]], "on": off % 2 == 0})
    # whole-field corner values of the identity fields
    for ip in ([0, 0, 0, 0], [255, 255, 255, 255], [127, 0, 0, 1], [224, 0, 0, 251], [0, 0, 0, 1], [10, 0, 0, 0]):
        cs.append({"ip": ip})
    for mac in ([0] * 6, [255] * 6, [0, 0, 0, 0, 0, 1], [1, 0, 0, 0, 0, 0]):
        cs.append({"mac": mac})
    for did in ("000000", "ffffff", "0a0d20", "f0fef0"):
        cs.append({"device_id": did})
    # pairwise corners between neighbouring identity fields
    for k, ipb, macb in itertools.product((0, 0xFF), (0, 0xFF), (0, 0xFF)):
        cs.append({"key": k, "ip": [ipb, 1, 2, ipb], "mac": [macb, 1, 2, 3, 4, macb], "device_id": "%02x00%02x" % (macb, k)})
    # every case runs against the seeded background unless it sweeps that field itself
    return [dict(bg, **c) for c in cs]


PRIMARY = {"V2_ESP", "POWER_PLUG", "BREEZE", "RUNNER"}


def all_cases(tier, seed=0):
    out = []
    for tname in B.TYPES:
        for f in cases_for(tname, tier, tname in PRIMARY, seed):
            out.append((tname, f))
    return out


def jobs(tier, seed):
    n = 64 if tier == "thorough" else 16
    js = [{"tier": tier, "seed": seed, "i": i, "n": n} for i in range(n)]
    for zone in ("Asia/Kathmandu", "America/St_Johns", "Pacific/Kiritimati"):
        js.append({"tier": tier, "seed": seed, "zone": zone})  # decoding does not depend on the host's zone
    return js


def zone_cases(tier):
    T = sorted(set(range(0, 86400, 997 if tier == "quick" else 61)) | set(T_CORN))
    cs = [("V4", {"on": True, "remaining": t, "auto_off": 86399 - t}) for t in T]
    cs += [("MINI", {"on": False, "remaining": 5400, "auto_off": 3600}), ("POWER_PLUG", {}), ("BREEZE", {}), ("RUNNER", {"position": 33, "direction": "down"})]
    return cs


def judge(res, tname, f, got):
    case = {"type": tname, "fields": f}
    if len(got) != 1:
        res.violation("delivery-count", case, f"{tname} {f}: {len(got)} callbacks for one well-formed broadcast", 1, len(got))
        return False
    exp = B.expected(tname, **f)
    bad = B.compare(exp, B.observe(got[0]))
    for field, e, o in bad[:3]:
        res.violation(f"field:{field}:{B.TYPES[tname][1]}", case, f"{tname} {f}: sender encoded {field}={e!r}, callback got {o!r}", e, o)
    return not bad


BATCH = 32


def run_job(job):
    res = Res()
    set_zone(job.get("zone", "UTC"))
    cases = zone_cases(job["tier"]) if "zone" in job else all_cases(job["tier"], job.get("seed", 0))[job["i"]::job["n"]]
    for tname, f in cases:
        if "zone" in job:
            f["_zone"] = job["zone"]
    with Clock(1_700_000_000.0):
        bw = BridgeWorld(1)
        try:
            out = bw.start()
            if out[0] != "ok":
                raise RuntimeError(f"bridge did not start: {out}")
            port = bw.ports[0]
            for k in range(0, len(cases), BATCH):
                chunk = cases[k:k + BATCH]
                n0 = len(bw.calls)
                for tname, f in chunk:
                    bw.send(port, B.encode(tname, **f))
                bw.settle()
                got = bw.calls[n0:]
                if len(got) == len(chunk):
                    for (tname, f), dev in zip(chunk, got):
                        ok = judge(res, tname, f, [dev])
                        res.case((tname, f), nontrivial=True)
                        if ok:
                            res.outcome((tname, type(dev).__name__))
                else:
                    # count mismatch: attribute by replaying each datagram alone
                    for tname, f in chunk:
                        n1 = len(bw.calls)
                        bw.send(port, B.encode(tname, **f))
                        bw.settle()
                        judge(res, tname, f, bw.calls[n1:])
                        res.case((tname, f), nontrivial=len(bw.calls) - n1 == 1)
                if bw.loop.exc_log:
                    res.counters["loop_exceptions"] += len(bw.loop.exc_log)
                    del bw.loop.exc_log[:]
                del bw.calls[:]
            if cases:
                tname, f = cases[len(cases) // 2]
                res.sample({"type": tname, "fields": f, "datagram": B.encode(tname, **f).hex(), "expected": {k: v for k, v in B.expected(tname, **f).items() if not k.startswith("_")}})
        finally:
            bw.close()
            set_zone("UTC")
    return res


def replay(case):
    res = Res()
    set_zone(case["fields"].get("_zone", "UTC"))
    with Clock(1_700_000_000.0):
        bw = BridgeWorld(1)
        try:
            bw.start()
            bw.send(bw.ports[0], B.encode(case["type"], **case["fields"]))
            bw.settle()
            judge(res, case["type"], case["fields"], list(bw.calls))
        finally:
            bw.close()
            set_zone("UTC")
    return res.violations


def selftest():
    B.selftest()


def finalize(merged, tier, seed):
    return {"exhaustive": True, "device_types": list(B.TYPES), "space": "per-type field sweeps as in rule; tier " + tier}
