"""C11 - clock times survive encoding and decoding in every time zone and on every date.

All 1440 minutes x 10 zones (UTC, +14, -11, half/quarter-hour offsets, both DST hemispheres,
a 30-minute DST shift) x dates (mid-year, day before/of/after each offset change, 31 Dec, 29 Feb,
1 Jan) x three "now" instants (00:00:30, noon, 23:59:30 local) under a pinned wall clock and the
real tzset: time_to_hexadecimal_timestamp must yield the little-endian epoch second of today's local
HH:MM (either fold when ambiguous; minutes that do not exist today are skipped) and
hexadecimale_timestamp_to_localtime must give HH:MM back.  Malformed strings must raise.
"""
import struct

from mc.core import optimized_job as core_optimized_job, run_optimized as core_run_optimized, Res
from mc.world import Clock, SteppingClock, set_zone
from ref import zones as Z

ID = "C11"
LEVEL = "exploration"
RULE = (
    "complete enumeration of 1440 minutes for every (zone, date, now) of the stated lists; non-trivial = the minute exists on "
    "that local date and the encoder returned a value that was compared with zoneinfo; distinct by (zone, date, now, minute)."
)
ASSUMPTIONS = [
    "time-machine pins time.time / time.localtime / time.strftime; the zone is switched with TZ + time.tzset (glibc zone code is what the library runs)",
    "ambiguous local times (clock set back) may encode to either occurrence",
    "only strings with no reading as hour 0-23 : minute 0-59 are required to raise; lenient spellings such as '9:05' are not judged",
]

BAD = ["", ":", "12", "1200", "12:", ":30", "24:00", "23:60", "12:60", "99:99", "ab:cd", "12:3a", "1x:30", "-1:30",
       "12.30", "12-30", " ", "noon", "25:00", "12:-5", "1e1:00", "12:30pm"]
NOWS = [(0, 0, 30), (12, 0, 0), (23, 59, 30)]


STEP_DATES = ["2026-12-31", "2027-02-28", "2024-02-28", "2024-02-29", "2026-04-30", "2026-07-14"]


def jobs(tier, seed):
    # one job per zone, all its dates in sequence: anything remembered from one date to the next shows inside the job
    return core_optimized_job([{"part": "stepping", "zone": zone, "tier": tier} for zone in Z.ZONES] + [{"zone": zone, "dates": [d.isoformat() for d in Z.dates_for(zone, tier)]} for zone in Z.ZONES])


def check_minute(res, zone, date, now_epoch, m):
    from aioswitcher.schedule import tools

    hhmm = "%02d:%02d" % divmod(m, 60)
    case = {"zone": zone, "date": date.isoformat(), "now": now_epoch, "hhmm": hhmm}
    want = Z.local_to_epochs(zone, date, m // 60, m % 60)
    try:
        hx = tools.time_to_hexadecimal_timestamp(hhmm)
    except Exception as exc:  # noqa: BLE001
        if want:
            res.violation("encode-raises", case, f"{zone} {date} now={now_epoch}: encoding {hhmm} raised {exc!r}", sorted(want), repr(exc))
        res.case(None, nontrivial=False)
        return
    if not want:
        res.counters["nonexistent_minutes_skipped"] += 1
        res.case(None, nontrivial=False)
        return
    res.case((zone, date.toordinal(), now_epoch, m))
    ok = isinstance(hx, str) and len(hx) == 8 and hx == hx.lower()
    val = struct.unpack("<I", bytes.fromhex(hx))[0] if ok else None
    if val not in want:
        res.violation("encode-wrong-epoch", case,
                      f"{zone} {date} (now={now_epoch}): {hhmm} encoded as {hx!r} = {val} = {Z.local_hm(zone, val) if val is not None else None} on {Z.local_date(zone, val) if val is not None else None}; expected {sorted(want)}",
                      sorted(want), hx)
        return
    try:
        back = tools.hexadecimale_timestamp_to_localtime(hx.encode())
    except Exception as exc:  # noqa: BLE001
        back = repr(exc)
    if back != hhmm:
        res.violation("decode-wrong-time", case, f"{zone} {date}: {hx} decodes to {back!r}, expected {hhmm!r}", hhmm, back)
    if len(want) == 2:
        res.counters["ambiguous_minutes"] += 1


def check_stepping(res, clk, zone, date, m, jump_at):
    """The clock passes local midnight just before clock read number `jump_at` of one encoding call: the result must be
    HH:MM on the date before or on the date after - the two dates the call was made on - never a mixture."""
    import datetime

    from aioswitcher.schedule import tools

    hhmm = "%02d:%02d" % divmod(m, 60)
    nxt = date + datetime.timedelta(days=1)
    case = {"stepping": True, "zone": zone, "date": date.isoformat(), "hhmm": hhmm, "jump_at": jump_at}
    w1, w2 = Z.local_to_epochs(zone, date, m // 60, m % 60), Z.local_to_epochs(zone, nxt, m // 60, m % 60)
    clk.move_to(float(Z.epoch_at(zone, date, 23, 59, 59)) + 0.5)
    clk.arm(jump_at)
    try:
        hx = tools.time_to_hexadecimal_timestamp(hhmm)
    except Exception as exc:  # noqa: BLE001
        if w1 and w2:
            res.violation("encode-raises-at-midnight", case, f"{zone} {date} -> {nxt}, clock passing midnight before read {jump_at}: encoding {hhmm} raised {exc!r}")
        return clk.reads
    finally:
        clk.jump_at = None
    res.case(("step", zone, date.toordinal(), m, jump_at), nontrivial=clk.jumped)
    try:
        val = struct.unpack("<I", bytes.fromhex(hx))[0]
    except Exception:  # noqa: BLE001
        val = None
    if (w1 or w2) and val not in (w1 | w2):
        res.violation("encode-mixes-two-dates", case,
                      f"{zone}: the clock passes from {date} to {nxt} before read {jump_at} of one call; {hhmm} encoded as {hx!r} = "
                      f"{Z.local_hm(zone, val) if val is not None else None} on {Z.local_date(zone, val) if val is not None else None}, which is neither date",
                      sorted(w1 | w2), hx)
    return clk.reads


def run_stepping(job, res):
    import datetime

    zone = job["zone"]
    set_zone(zone)
    minutes = range(0, 1440, 1 if job.get("tier") == "thorough" else 11)
    with SteppingClock(0.0) as clk:
        for d in STEP_DATES:
            date = datetime.date.fromisoformat(d)
            if not Z.local_to_epochs(zone, date, 23, 59, 59):
                continue
            for m in sorted(set(minutes) | {0, 1, 59, 60, 1380, 1438, 1439}):
                reads = check_stepping(res, clk, zone, date, m, None)  # count the reads of this call
                for k in range(reads + 1):
                    check_stepping(res, clk, zone, date, m, k)
                res.counters["clock_reads_per_call_max"] = max(res.counters["clock_reads_per_call_max"], reads)
    res.outcome(("stepping", zone))
    return res


def run_job(job):
    if job.get("part") == "optimized":
        r0 = Res()
        core_run_optimized(ID, job.get("tier", "quick"), r0)
        return r0
    import datetime

    if job.get("part") == "stepping":
        return run_stepping(job, Res())

    res = Res()
    for d in job["dates"]:
        run_date({"zone": job["zone"], "date": d}, res)
    # second enumeration order: the same clock string asked on one date after the other (what was computed for
    # an earlier date must not be remembered)
    zone = job["zone"]
    set_zone(zone)
    with Clock(0.0) as clk:
        for m in (0, 1, 754, 1439):
            for rnd in range(2):
                for d in (job["dates"] if rnd == 0 else reversed(job["dates"])):
                    date = datetime.date.fromisoformat(d)
                    now = Z.epoch_at(zone, date, 12, 0, 0)
                    clk.move_to(float(now) + 0.25)
                    check_minute(res, zone, date, now, m)
    return res


def run_date(job, res):
    import datetime

    from aioswitcher.schedule import tools

    zone = job["zone"]
    date = datetime.date.fromisoformat(job["date"])
    set_zone(zone)
    with Clock(0.0) as clk:
        for (h, mi, s) in NOWS:
            now = Z.epoch_at(zone, date, h, mi, s)
            if Z.local_date(zone, now) != date:
                continue
            clk.move_to(float(now) + (0.75 if (h, mi, s) == (12, 0, 0) else 0.25))  # the fraction of the current second never matters
            import time as _t
            from mc.core import HarnessError
            if _t.strftime("%Y-%m-%d %H:%M") != f"{date.isoformat()} {h:02d}:{mi:02d}" and Z.local_to_epochs(zone, date, h, mi, s):
                raise HarnessError(f"virtual clock/zone not in effect: {_t.strftime('%Y-%m-%d %H:%M')} vs {date} {h}:{mi} in {zone}")
            for m in range(1440):
                check_minute(res, zone, date, now, m)
            # decode of arbitrary instants of this day (not only whole local minutes of today)
            for k in range(0, 86400, 1777):
                e = now - (now % 86400) + k
                hx = struct.pack("<I", e).hex()
                res.evals += 1
                try:
                    back = tools.hexadecimale_timestamp_to_localtime(hx.encode())
                except Exception as exc:  # noqa: BLE001
                    back = repr(exc)
                if back != Z.local_hm(zone, e):
                    res.violation("decode-wrong-time", {"zone": zone, "date": job["date"], "now": now, "epoch": e}, f"{zone}: epoch {e} decodes to {back!r}, expected {Z.local_hm(zone, e)!r}")
        for bad in BAD:
            res.case(("bad", zone, job["date"], bad))
            try:
                out = tools.time_to_hexadecimal_timestamp(bad)
            except Exception:  # noqa: BLE001
                continue
            res.violation("malformed-accepted", {"zone": zone, "date": job["date"], "now": None, "bad": bad}, f"time_to_hexadecimal_timestamp({bad!r}) returned {out!r}")
    if date.month == 7:
        res.sample({"zone": zone, "date": job["date"], "now_local": "12:00:00", "hhmm": "21:05", "expected_epoch": sorted(Z.local_to_epochs(zone, date, 21, 5))})
    res.outcome(zone)
    return res


def replay(case):
    if isinstance(case, dict) and case.get("part") == "optimized":
        r0 = Res()
        core_run_optimized(ID, case.get("tier", "quick"), r0)
        return r0.violations
    import datetime

    from aioswitcher.schedule import tools

    res = Res()
    set_zone(case["zone"])
    date = datetime.date.fromisoformat(case["date"])
    if case.get("stepping"):
        with SteppingClock(0.0) as clk:
            h, m = case["hhmm"].split(":")
            check_stepping(res, clk, case["zone"], date, int(h) * 60 + int(m), case["jump_at"])
        return res.violations
    with Clock(0.0) as clk:
        if "bad" in case:
            try:
                out = tools.time_to_hexadecimal_timestamp(case["bad"])
                res.violation("malformed-accepted", case, f"returned {out!r}")
            except Exception:  # noqa: BLE001
                pass
        elif "epoch" in case:
            clk.move_to(float(case["now"]) + 0.25)
            hx = struct.pack("<I", case["epoch"]).hex()
            try:
                back = tools.hexadecimale_timestamp_to_localtime(hx.encode())
            except Exception as exc:  # noqa: BLE001
                back = repr(exc)
            if back != Z.local_hm(case["zone"], case["epoch"]):
                res.violation("decode-wrong-time", case, f"decodes to {back!r}")
        else:
            clk.move_to(float(case["now"]) + 0.25)
            h, m = case["hhmm"].split(":")
            check_minute(res, case["zone"], date, case["now"], int(h) * 60 + int(m))
    return res.violations


def finalize(merged, tier, seed):
    return {"exhaustive": True, "zones": Z.ZONES, "dates_per_zone": {z: len(Z.dates_for(z, tier)) for z in Z.ZONES},
            "space": "1440 minutes x zones x dates x 3 now-instants"}
