"""C11 - clock times survive encoding and decoding in every time zone and on every date.

All 1440 minutes x 10 zones (UTC, +14, -11, half/quarter-hour offsets, both DST hemispheres,
a 30-minute DST shift) x dates (mid-year, day before/of/after each offset change, 31 Dec, 29 Feb,
1 Jan) x three "now" instants (00:00:30, noon, 23:59:30 local) under a pinned wall clock and the
real tzset: time_to_hexadecimal_timestamp must yield the little-endian epoch second of today's local
HH:MM (either fold when ambiguous; minutes that do not exist today are skipped) and
hexadecimale_timestamp_to_localtime must give HH:MM back.  Malformed strings must raise.
"""
import struct

from mc.core import optimized_job as core_optimized_job, run_optimized as core_run_optimized, Res
from mc.world import Clock, set_zone
from ref import zones as Z

ID = "C11"
LEVEL = "exploration"
RULE = (
    "complete enumeration of 1440 minutes for every (zone, date, now) of the stated lists; non-trivial = the minute exists on "
    "that local date and the encoder returned a value that was compared with zoneinfo; distinct by (zone, date, now, minute)."
)
ASSUMPTIONS = [
    "time-machine pins time.time / time.localtime / time.strftime; the zone is switched with TZ + time.tzset (glibc zone code is what the library runs)",
    "ambiguous local times (clock set back) may encode to either occurrence",
    "only strings with no reading as hour 0-23 : minute 0-59 are required to raise; lenient spellings such as '9:05' are not judged",
]

BAD = ["", ":", "12", "1200", "12:", ":30", "24:00", "23:60", "12:60", "99:99", "ab:cd", "12:3a", "1x:30", "-1:30",
       "12.30", "12-30", " ", "noon", "25:00", "12:-5", "1e1:00", "12:30pm"]
NOWS = [(0, 0, 30), (12, 0, 0), (23, 59, 30)]


def jobs(tier, seed):
    # one job per zone, all its dates in sequence: anything remembered from one date to the next shows inside the job
    return core_optimized_job([{"zone": zone, "dates": [d.isoformat() for d in Z.dates_for(zone, tier)]} for zone in Z.ZONES])


def check_minute(res, zone, date, now_epoch, m):
    from aioswitcher.schedule import tools

    hhmm = "%02d:%02d" % divmod(m, 60)
    case = {"zone": zone, "date": date.isoformat(), "now": now_epoch, "hhmm": hhmm}
    want = Z.local_to_epochs(zone, date, m // 60, m % 60)
    try:
        hx = tools.time_to_hexadecimal_timestamp(hhmm)
    except Exception as exc:  # noqa: BLE001
        if want:
            res.violation("encode-raises", case, f"{zone} {date} now={now_epoch}: encoding {hhmm} raised {exc!r}", sorted(want), repr(exc))
        res.case(None, nontrivial=False)
        return
    if not want:
        res.counters["nonexistent_minutes_skipped"] += 1
        res.case(None, nontrivial=False)
        return
    res.case((zone, date.toordinal(), now_epoch, m))
    ok = isinstance(hx, str) and len(hx) == 8 and hx == hx.lower()
    val = struct.unpack("<I", bytes.fromhex(hx))[0] if ok else None
    if val not in want:
        res.violation("encode-wrong-epoch", case,
                      f"{zone} {date} (now={now_epoch}): {hhmm} encoded as {hx!r} = {val} = {Z.local_hm(zone, val) if val is not None else None} on {Z.local_date(zone, val) if val is not None else None}; expected {sorted(want)}",
                      sorted(want), hx)
        return
    try:
        back = tools.hexadecimale_timestamp_to_localtime(hx.encode())
    except Exception as exc:  # noqa: BLE001
        back = repr(exc)
    if back != hhmm:
        res.violation("decode-wrong-time", case, f"{zone} {date}: {hx} decodes to {back!r}, expected {hhmm!r}", hhmm, back)
    if len(want) == 2:
        res.counters["ambiguous_minutes"] += 1


def run_job(job):
    if job.get("part") == "optimized":
        r0 = Res()
        core_run_optimized(ID, job.get("tier", "quick"), r0)
        return r0
    import datetime

    res = Res()
    for d in job["dates"]:
        run_date({"zone": job["zone"], "date": d}, res)
    # second enumeration order: the same clock string asked on one date after the other (what was computed for
    # an earlier date must not be remembered)
    zone = job["zone"]
    set_zone(zone)
    with Clock(0.0) as clk:
        for m in (0, 1, 754, 1439):
            for rnd in range(2):
                for d in (job["dates"] if rnd == 0 else reversed(job["dates"])):
                    date = datetime.date.fromisoformat(d)
                    now = Z.epoch_at(zone, date, 12, 0, 0)
                    clk.move_to(float(now) + 0.25)
                    check_minute(res, zone, date, now, m)
    return res


def run_date(job, res):
    import datetime

    from aioswitcher.schedule import tools

    zone = job["zone"]
    date = datetime.date.fromisoformat(job["date"])
    set_zone(zone)
    with Clock(0.0) as clk:
        for (h, mi, s) in NOWS:
            now = Z.epoch_at(zone, date, h, mi, s)
            if Z.local_date(zone, now) != date:
                continue
            clk.move_to(float(now) + (0.75 if (h, mi, s) == (12, 0, 0) else 0.25))  # the fraction of the current second never matters
            import time as _t
            from mc.core import HarnessError
            if _t.strftime("%Y-%m-%d %H:%M") != f"{date.isoformat()} {h:02d}:{mi:02d}" and Z.local_to_epochs(zone, date, h, mi, s):
                raise HarnessError(f"virtual clock/zone not in effect: {_t.strftime('%Y-%m-%d %H:%M')} vs {date} {h}:{mi} in {zone}")
            for m in range(1440):
                check_minute(res, zone, date, now, m)
            # decode of arbitrary instants of this day (not only whole local minutes of today)
            for k in range(0, 86400, 1777):
                e = now - (now % 86400) + k
                hx = struct.pack("<I", e).hex()
                res.evals += 1
                try:
                    back = tools.hexadecimale_timestamp_to_localtime(hx.encode())
                except Exception as exc:  # noqa: BLE001
                    back = repr(exc)
                if back != Z.local_hm(zone, e):
                    res.violation("decode-wrong-time", {"zone": zone, "date": job["date"], "now": now, "epoch": e}, f"{zone}: epoch {e} decodes to {back!r}, expected {Z.local_hm(zone, e)!r}")
        for bad in BAD:
            res.case(("bad", zone, job["date"], bad))
            try:
                out = tools.time_to_hexadecimal_timestamp(bad)
            except Exception:  # noqa: BLE001
                continue
            res.violation("malformed-accepted", {"zone": zone, "date": job["date"], "now": None, "bad": bad}, f"time_to_hexadecimal_timestamp({bad!r}) returned {out!r}")
    if date.month == 7:
        res.sample({"zone": zone, "date": job["date"], "now_local": "12:00:00", "hhmm": "21:05", "expected_epoch": sorted(Z.local_to_epochs(zone, date, 21, 5))})
    res.outcome(zone)
    return res


def replay(case):
    if isinstance(case, dict) and case.get("part") == "optimized":
        r0 = Res()
        core_run_optimized(ID, case.get("tier", "quick"), r0)
        return r0.violations
    import datetime

    from aioswitcher.schedule import tools

    res = Res()
    set_zone(case["zone"])
    date = datetime.date.fromisoformat(case["date"])
    with Clock(0.0) as clk:
        if "bad" in case:
            try:
                out = tools.time_to_hexadecimal_timestamp(case["bad"])
                res.violation("malformed-accepted", case, f"returned {out!r}")
            except Exception:  # noqa: BLE001
                pass
        elif "epoch" in case:
            clk.move_to(float(case["now"]) + 0.25)
            hx = struct.pack("<I", case["epoch"]).hex()
            try:
                back = tools.hexadecimale_timestamp_to_localtime(hx.encode())
            except Exception as exc:  # noqa: BLE001
                back = repr(exc)
            if back != Z.local_hm(case["zone"], case["epoch"]):
                res.violation("decode-wrong-time", case, f"decodes to {back!r}")
        else:
            clk.move_to(float(case["now"]) + 0.25)
            h, m = case["hhmm"].split(":")
            check_minute(res, case["zone"], date, case["now"], int(h) * 60 + int(m))
    return res.violations


def finalize(merged, tier, seed):
    return {"exhaustive": True, "zones": Z.ZONES, "dates_per_zone": {z: len(Z.dates_for(z, tier)) for z in Z.ZONES},
            "space": "1440 minutes x zones x dates x 3 now-instants"}
