"""C03 - every operation logs in first and binds its commands to that login's session.

Three explorations on the real client (controlled loop, socketpair connections, fake devices that
issue a never-repeating session id per login, a clock that jumps at every step):

 (a) sequences: every sequence of operations up to depth D (quick 3, thorough 5) over the alphabet of
     all operation kinds of one API plus failing variants (bad argument after login, garbage state
     reply, unsupported thermostat mode) on one connection;
 (b) closure: the state graph over (API object state, digest of every mutable module-level object and
     function default in aioswitcher.*) built from those runs; reports states, transitions and whether
     every (state, operation) pair was executed (graph closed => longer sequences add nothing new
     modulo state outside the fingerprint);
 (a') the same sequences to depth 2 (thorough 3) with the clock frozen, so that consecutive operations fall
     into one clock second (no operation may lean on "the time has moved on" to start afresh);
 (a'') every single operation (thorough: every pair) with the host in three non-UTC zones: the timestamp is the epoch
     second whatever the zone;
 (c) interleavings: two API instances (different ids/keys, same or different API type, configured with the
     same host address in half of the pairs and different addresses in the rest) run their
     operations as concurrent tasks; the only freedom is which connection's pending read the device
     answers next, and every such order is executed.

Oracle (per connection, per operation): first frame is the login of the right type carrying this
instance's key (type 1) / device id (type 2) and a zero session; every following frame carries the
session id issued in *that* login's reply, a timestamp read between the operation's start and the
frame's write, and this instance's device id; the frame kinds and count are the model's.
"""
import asyncio
import itertools
import struct
import time

from mc import explorer as X
from mc.apiworld import OPS, OPS1, OPS2, ApiWorld, Device, call, expected_shape, remote
from mc.core import Res, khash
from mc.fingerprint import api_state, modules_digest
from mc.world import Clock, Hang, new_loop, set_zone, task_outcome
from ref import frames as F
from ref import replies as RP

ID = "C03"
LEVEL = "model_checking"
RULE = (
    "states = distinct (API object state, module-level state digest) fingerprints reached; transitions = distinct "
    "(state, operation, next state); traces = executions on the real client (every sequence / every interleaving "
    "is one). distinct_nontrivial counts distinct executions in which at least two operations (sequences) or two "
    "instances (interleavings) wrote frames that were checked against the session model."
)
ASSUMPTIONS = [
    "single-threaded asyncio: the only scheduling freedom between two instances is the order in which their pending reads are answered",
    "'a current timestamp' = any clock reading between the start of the operation and the write of the frame",
    "closure holds modulo implementation state outside the fingerprint (closures, C-level objects); the stateless depth guards that",
]

# failing variants: name -> (kind, base op, args, script, frames expected, outcome)
GARBAGE = b"\x01\x02\x03"
VARIANTS = {
    "t1_bad_name": (1, "set_device_name", {"name": "x"}, None, ["login1"], "rejected"),
    "t1_garbage_state": (1, "get_state", {}, [Ellipsis, GARBAGE], ["login1", "get_state1"], "RuntimeError"),
    "t2_garbage_state": (2, "get_breeze_state", {}, [Ellipsis, GARBAGE], ["login2", "get_state2"], "RuntimeError"),
    "t2_unsupported_mode": (2, "breeze_main", {"mode": "heat", "remote_key": "coolonly"}, None, ["login2", "get_state2"], "RuntimeError"),
    # the device takes 45 (virtual) seconds to answer the login / the command: still one complete exchange
    "t1_slow_login": (1, "control_on", {}, [("delay", 45, Ellipsis)], ["login1", "control"], "ok"),
    "t1_slow_reply": (1, "control_off", {}, [Ellipsis, ("delay", 45, Ellipsis)], ["login1", "control"], "ok"),
    "t2_slow_login": (2, "set_position", {}, [("delay", 45, Ellipsis)], ["login2", "set_position"], "ok"),
    # the device never answers; the caller gives up (cancellation, which is also what asyncio.wait_for / timeout do)
    "t1_abandoned_login": (1, "control_on", {}, [False], ["login1"], "hang"),
    "t1_abandoned_reply": (1, "get_state", {}, [Ellipsis, False], ["login1", "get_state1"], "hang"),
    "t2_abandoned_reply": (2, "set_position", {}, [Ellipsis, False], ["login2", "set_position"], "hang"),
    # a separate-swing thermostat control with swing requested that is aborted after the state read
    "t2_special_aborted": (2, "breeze_swing", {"mode": "heat", "remote_key": "special-coolonly"}, None, ["login2", "get_state2"], "RuntimeError"),
}
ALPHA = {1: OPS1 + ["t1_bad_name", "t1_garbage_state", "t1_slow_login", "t1_slow_reply", "t1_abandoned_login", "t1_abandoned_reply"],
         2: OPS2 + ["breeze_temp_only", "t2_garbage_state", "t2_unsupported_mode", "t2_special_aborted", "t2_slow_login", "t2_abandoned_reply"]}
import os

_SEED = int(os.environ.get("VERIF_SEED", "0") or 0)
_IDPOOL = [("aabbcc", "18"), ("3c4d5e", "a5"), ("0102ff", "00"), ("f0e1d2", "ff"), ("00ff10", "07")]
IDS = [_IDPOOL[_SEED % 5], _IDPOOL[(_SEED + 1 + _SEED // 5 % 4) % 5]]
T0 = 1_700_000_000.25
SPECIAL_IDS = ["f00000", "fef000", "0fef00", "00fef0", "f0fef0", "fef0fe", "f0fe00", "00f0fe", "000000", "ffffff", "0000fe", "fe0000", "0a0d0a", "303030"]


def resolve(name):
    """-> (op, args, script, shape, expected outcome)"""
    if name in VARIANTS:
        kind, op, args, script, shape, outc = VARIANTS[name]
        args = dict(args)
        rk = args.pop("remote_key", None)
        if rk == "coolonly":
            args["remote_obj"] = remote("plain", modes=("cool",))[0]
        elif rk == "special-coolonly":
            args["remote_obj"] = remote("special", modes=("cool",))[0]
        return op, args, script, shape, outc
    return name, {}, None, expected_shape(name), "ok"


def state2_for(op):
    return RP.shutter(50, "stop") if op == "get_shutter_state" else None


# ---------------------------------------------------------------------------
# the session model


def check_op(res, case, who, kind, did, key, rec, session, frames, wtimes):
    """rec: {"name","t0","out"}; frames/wtimes: what this operation wrote; session: id issued for it (or None)."""
    name = rec["name"]
    op, args, script, shape, outc = resolve(name)
    kinds = [F.classify(w) for w in frames]
    tag = f"{who} {name}"
    got = "ok" if rec["out"][0] == "ok" else (type(rec["out"][1]).__name__ if rec["out"][0] == "exc" else rec["out"][0])
    if outc == "rejected" and rec["out"][0] == "exc" and isinstance(rec["out"][1], Exception):
        got = "rejected"  # a bad argument: any exception, raised before or after the login frame
        if kinds == []:
            shape = []
    elif outc == "RuntimeError" and rec["out"][0] == "exc" and isinstance(rec["out"][1], RuntimeError):
        got = "RuntimeError"
    if got != outc:
        res.violation(f"outcome:{name}", case, f"{tag}: expected {outc}, got {got} ({rec['out'][1]!r})", outc, got)
        return False
    if outc == "hang" and case.get("part") == "inter" and kinds and kinds == shape[:len(kinds)]:
        shape = kinds  # with another instance's slow device in the same loop the caller may give up at an earlier step
    if kinds != shape:
        res.violation(f"frame-sequence:{name}", case, f"{tag}: wrote {kinds}, the model expects {shape}", shape, kinds)
        return False
    ok = True
    for j, w in enumerate(frames):
        for clause, detail in F.wellformed(w):
            res.violation(f"frame-{clause}:{kinds[j]}", case, f"{tag}: frame {j} fails {clause}: {detail}", None, w)
            ok = False
        h = F.decode_header(w)
        body = w[40:-4]
        lo, hi = int(rec["t0"]), int(wtimes[j]) + 1
        if not lo <= h["ts"] <= hi:
            res.violation(f"stale-timestamp:{'login' if j == 0 else 'command'}", case,
                          f"{tag}: frame {j} ({kinds[j]}) carries timestamp {h['ts']}, the operation ran in [{lo}, {hi}]", [lo, hi], h["ts"])
            ok = False
        if j == 0:
            if h["session"] != bytes(4):
                res.violation("login-carries-session", case, f"{tag}: login frame carries session {h['session'].hex()}", "00000000", h["session"].hex())
                ok = False
            if kind == 1 and body[0:1] != bytes.fromhex(key):
                res.violation("login-key", case, f"{tag}: login carries key {body[0:1].hex()}, instance key is {key}", key, body[0:1].hex())
                ok = False
            if kind == 2 and body[0:3] != bytes.fromhex(did):
                res.violation("login-device-id", case, f"{tag}: login carries id {body[0:3].hex()}, instance id is {did}", did, body[0:3].hex())
                ok = False
        else:
            if session is None or h["session"] != session:
                res.violation("foreign-session", case,
                              f"{tag}: frame {j} ({kinds[j]}) carries session {h['session'].hex()}, this operation's login was answered with {session.hex() if session else None}",
                              session, h["session"])
                ok = False
            if body[0:3] != bytes.fromhex(did):
                res.violation("foreign-device-id", case, f"{tag}: frame {j} ({kinds[j]}) carries id {body[0:3].hex()}, instance id is {did}", did, body[0:3].hex())
                ok = False
    return ok


# ---------------------------------------------------------------------------
# (a)+(b) sequences on one connection


def run_sequence(kind, names, res, case, record_states=True):
    set_zone(case.get("zone") or "UTC")
    frozen = bool(case.get("frozen"))  # every operation of the sequence happens within one clock second
    ids = tuple(case.get("ids") or IDS[0])
    with Clock(T0) as clk, ApiWorld(kind, *ids, device=Device(0x5E000000)) as w:
        out = w.connect()
        if out[0] != "ok":
            res.violation("connect-failed", case, f"connect: {out}")
            return 0
        st = (api_state(w.api), modules_digest()) if record_states else None
        if record_states:
            res.state(st)
        checked = 0
        for n, name in enumerate(names):
            if not frozen:
                clk.shift(100.0)
            op, args, script, shape, outc = resolve(name)
            s0 = len(w.device.sessions)
            t0 = clk.now
            w0 = len(w.conn.writes)
            hooked = _shifting(w.device, clk) if not frozen else None
            outcome, writes, rx = w.run_op(op, args, script=script, state2_reply=state2_for(op))
            _unhook(w.device, hooked)
            sess = w.device.sessions[s0] if len(w.device.sessions) > s0 else None
            if len(w.device.sessions) - s0 > 1:
                res.violation(f"multiple-logins:{name}", case, f"{name}: {len(w.device.sessions) - s0} logins in one operation")
            rec = {"name": name, "t0": t0, "out": outcome}
            if check_op(res, case, f"op#{n}", kind, ids[0], ids[1], rec, sess, writes, w.conn.write_times[w0:]):
                checked += 1
            if b"".join(writes) != b"".join(rx):
                res.violation("wire-differs-from-writes", case, f"{name}: wire bytes differ from written frames")
            if record_states:
                st2 = (api_state(w.api), modules_digest())
                res.state(st2)
                res.transition((st, name, st2))
                res.add("state_op", (kind, khash(st), name))
                res.add("kind_state", (kind, khash(st)))
                res.add("kind_state", (kind, khash(st2)))
                st = st2
        w.disconnect()
        return checked


def _shifting(device, clk):
    """Make the device advance the wall clock by 3 s every time it answers."""
    orig = device.respond

    def respond(conn, chunk):
        clk.shift(3.0)
        return orig(conn, chunk)

    device.respond = respond
    return orig


def _unhook(device, orig):
    if orig is None:
        return
    try:
        del device.respond
    except AttributeError:
        pass


# ---------------------------------------------------------------------------
# (c) interleavings of two instances


def run_interleaved(ch, spec, res, case):
    """spec: [(kind, [names]), (kind, [names])]; case["same_host"]: both instances are configured with one ip address"""
    set_zone("UTC")
    loop = new_loop()
    recs = [[], []]
    order = []
    try:
        with Clock(T0) as clk:
            worlds = []
            for i, (kind, names) in enumerate(spec):
                w = ApiWorld(kind, *IDS[i], ip="192.168.7.%d" % (21 + (0 if case.get("same_host") else i)), loop=loop, device=Device(0x5E000000 + i * 0x20000000))
                if w.connect()[0] != "ok":
                    res.violation("connect-failed", case, "connect failed")
                    return None
                worlds.append(w)

            async def seq(i):
                w = worlds[i]
                for name in spec[i][1]:
                    op, args, script, shape, outc = resolve(name)
                    w.device.begin(shape if name in VARIANTS else expected_shape(op, args), script, state2_for(op))
                    rec = {"name": name, "t0": time.time(), "w0": len(w.conn.writes), "s0": len(w.device.sessions)}
                    try:
                        if outc == "hang":
                            # the caller bounds its wait, as applications do
                            try:
                                rec["out"] = ("ok", await asyncio.wait_for(call(w.api, op, args), 30))
                            except asyncio.TimeoutError:
                                rec["out"] = ("hang", None)
                        else:
                            rec["out"] = ("ok", await call(w.api, op, args))
                    except Exception as exc:  # noqa: BLE001
                        rec["out"] = ("exc", exc)
                    rec["w1"] = len(w.conn.writes)
                    recs[i].append(rec)

            tasks = [loop.create_task(seq(0)), loop.create_task(seq(1))]
            idle_rounds = 0
            for _ in range(400):
                loop.settle()
                for w in worlds:
                    w.conn.poll()
                pending = [i for i, w in enumerate(worlds) if w.conn.handled < len(w.conn.rx)]
                if not pending:
                    if all(t.done() for t in tasks) or idle_rounds >= 3:
                        break
                    idle_rounds += 1  # nobody has anything to answer: let (virtual) time pass until a caller gives up
                    loop.advance(31.0)
                    clk.shift(31.0)
                    continue
                idle_rounds = 0
                k = ch.choose(len(pending), "answer:" + "".join(map(str, pending)))
                i = pending[k]
                order.append(i)
                conn = worlds[i].conn
                chunk = conn.rx[conn.handled]
                conn.handled += 1
                clk.shift(3.0)
                reply = worlds[i].device.respond(conn, chunk)
                if isinstance(reply, tuple) and reply and reply[0] == "delay":
                    loop.advance(reply[1])
                    clk.shift(float(reply[1]))
                    reply = reply[2]
                if reply is None:
                    conn.send_eof()
                elif reply is not False:
                    conn.send(reply)
            loop.settle()
            if not all(t.done() for t in tasks):
                res.violation("interleaving-hangs", case, f"tasks did not finish under answer order {order}")
                for t in tasks:
                    t.cancel()
                loop.settle()
                return None
            both = 0
            for i, w in enumerate(worlds):
                for n, rec in enumerate(recs[i]):
                    sess = w.device.sessions[rec["s0"]] if len(w.device.sessions) > rec["s0"] else None
                    frames = w.conn.writes[rec["w0"]:rec["w1"]]
                    if check_op(res, case, f"instance{i} op#{n}", w.kind, IDS[i][0], IDS[i][1], rec, sess, frames, w.conn.write_times[rec["w0"]:rec["w1"]]):
                        both += 1
                if w.conn.wire() != b"".join(w.conn.writes):
                    res.violation("wire-differs-from-writes", case, f"instance{i}: wire bytes differ from written frames")
                if len(recs[i]) != len(spec[i][1]):
                    res.violation("interleaving-lost-operation", case, f"instance{i} completed {len(recs[i])} of {len(spec[i][1])} operations")
            # no session id may appear on the other connection
            # (the all-zero id is what every login frame carries in its own session field, so it cannot tell connections apart)
            sa = {s for s in worlds[0].device.sessions if s and s != b"\0\0\0\0"}
            sb = {s for s in worlds[1].device.sessions if s and s != b"\0\0\0\0"}
            for i, (w, foreign) in enumerate(((worlds[0], sb), (worlds[1], sa))):
                for fr in w.conn.writes:
                    if fr[8:12] in foreign:
                        res.violation("session-leaks-between-instances", case, f"instance{i} wrote a frame with the other instance's session {fr[8:12].hex()}")
            return tuple(order)
    finally:
        loop.finish()


# ---------------------------------------------------------------------------


def pair_specs(tier):
    specs = []
    for ka, kb in ((1, 1), (1, 2), (2, 2)):
        for a in ALPHA[ka]:
            for b in ALPHA[kb]:
                specs.append([(ka, [a]), (kb, [b])])
    two = []
    seqs1 = [list(p) for p in itertools.product(OPS1, repeat=2)]
    seqs2 = [list(p) for p in itertools.product(OPS2, repeat=2)]
    fixed = {1: [["get_state", "control_on"], ["create_schedule", "t1_garbage_state"]], 2: [["breeze_swing", "set_position"], ["get_breeze_state", "breeze_update"]]}
    if tier == "thorough":
        for sa in seqs1:
            for kb in (1, 2):
                for sb in fixed[kb]:
                    two.append([(1, sa), (kb, sb)])
        for sa in seqs2:
            for kb in (1, 2):
                for sb in fixed[kb][:1]:
                    two.append([(2, sa), (kb, sb)])
    else:
        for sa in (["get_state", "set_device_name"], ["control_timer", "get_schedules"], ["t1_bad_name", "delete_schedule"]):
            two.append([(1, sa), (1, fixed[1][0])])
            two.append([(1, sa), (2, ["stop", "get_shutter_state"])])
        two.append([(2, ["breeze_main", "breeze_update"]), (2, ["get_breeze_state", "set_position"])])
    return specs + two


def depth(tier):
    return 5 if tier == "thorough" else 3


def jobs(tier, seed):
    js = []
    D = depth(tier)
    for kind in (1, 2):
        for first in ALPHA[kind]:
            if D >= 5:
                for second in ALPHA[kind]:
                    js.append({"part": "seq", "kind": kind, "prefix": [first, second], "depth": D})
                js.append({"part": "seq", "kind": kind, "prefix": [first], "depth": 1})
            else:
                js.append({"part": "seq", "kind": kind, "prefix": [first], "depth": D})
    for kind in (1, 2):
        js.append({"part": "frozen", "kind": kind, "depth": 3 if tier == "thorough" else 2})
        for zone in ("Asia/Kathmandu", "America/New_York", "Pacific/Kiritimati"):
            js.append({"part": "zoned", "kind": kind, "zone": zone, "depth": 2 if tier == "thorough" else 1})
    for kind in (1, 2):
        js.append({"part": "ids", "kind": kind})
        js.append({"part": "long", "kind": kind, "rounds": 40 if tier == "thorough" else 20})
    specs = pair_specs(tier)
    n = 48 if tier == "thorough" else 16
    for i in range(n):
        js.append({"part": "inter", "tier": tier, "i": i, "n": n})
    return js


def run_job(job):
    res = Res()
    if job["part"] == "zoned":
        # "a current timestamp" is the epoch second, whatever the host's zone
        kind = job["kind"]
        try:
            for n in range(1, job["depth"] + 1):
                for names in itertools.product(ALPHA[kind], repeat=n):
                    case = {"part": "seq", "kind": kind, "names": list(names), "zone": job["zone"]}
                    checked = run_sequence(kind, list(names), res, case, record_states=False)
                    res.traces += 1
                    res.case(("zoned", kind, job["zone"], names), nontrivial=checked >= 1)
        finally:
            set_zone("UTC")
        return res
    if job["part"] == "ids":
        # device ids whose hex spelling, next to the header terminator f0fe or on its own, reads like protocol markers
        kind = job["kind"]
        for did in SPECIAL_IDS:
            for key in ("18", "00"):
                names = list(ALPHA[kind])
                case = {"part": "seq", "kind": kind, "names": names, "ids": [did, key]}
                checked = run_sequence(kind, names, res, case, record_states=False)
                res.traces += 1
                res.case(("ids", kind, did, key), nontrivial=checked >= 2)
        return res
    if job["part"] == "long":
        # one connection lives through hundreds of operations (every kind, in a rotating order)
        kind = job["kind"]
        alpha = ALPHA[kind]
        names = []
        for r in range(job["rounds"]):
            names.extend(alpha[r % len(alpha):] + alpha[:r % len(alpha)])
        case = {"part": "seq", "kind": kind, "names": names}
        checked = run_sequence(kind, names, res, case, record_states=False)
        res.traces += 1
        res.case(("long", kind, len(names)), nontrivial=checked >= 2)
        res.counters["longest_sequence_on_one_connection"] = max(res.counters["longest_sequence_on_one_connection"], len(names))
        return res
    if job["part"] == "frozen":
        kind = job["kind"]
        for n in range(1, job["depth"] + 1):
            for names in itertools.product(ALPHA[kind], repeat=n):
                case = {"part": "seq", "kind": kind, "names": list(names), "frozen": True}
                checked = run_sequence(kind, list(names), res, case, record_states=False)
                res.traces += 1
                res.case(("frozen", kind, names), nontrivial=checked >= 2)
        return res
    if job["part"] == "seq":
        kind, prefix, D = job["kind"], job["prefix"], job["depth"]
        alpha = ALPHA[kind]
        for extra in range(0, D - len(prefix) + 1):
            for tail in itertools.product(alpha, repeat=extra):
                names = prefix + list(tail)
                case = {"part": "seq", "kind": kind, "names": names}
                checked = run_sequence(kind, names, res, case)
                res.traces += 1
                res.case(("seq", kind, tuple(names)), nontrivial=checked >= 2)
        if prefix[0] == alpha[0]:
            res.sample({"sequence": prefix + [alpha[-1]] * max(0, D - len(prefix)), "api_type": kind})
    else:
        specs = pair_specs(job["tier"])[job["i"]::job["n"]]
        diverged = []
        for spec in specs:
            orders = set()

            same_host = (khash(repr(spec)) % 2) == 0 or spec[0][0] == spec[1][0] == 1 and len(spec[0][1]) == 1

            def run(ch, spec=spec, same_host=same_host):
                case = {"part": "inter", "spec": spec, "choices": None, "same_host": same_host}
                r = Res()
                order = run_interleaved(ch, spec, r, case)
                return r, order

            def on_exec(ch, result, spec=spec):
                r, order = result
                for v in r.violations:
                    v["case"]["choices"] = ch.choices
                res.merge(r)
                res.traces += 1
                res.case(("inter", repr(spec), tuple(ch.choices)), nontrivial=order is not None and len(set(order)) == 2)
                if order is not None:
                    orders.add(order)

            n, capped = X.explore(run, on_exec, bound=None, on_diverge=lambda ch, msg: diverged.append(msg))
            res.counters["interleaving_schedules"] += n
            res.counters["operation_pairs"] += 1
            res.counters["max_schedules_per_pair"] = max(res.counters["max_schedules_per_pair"], n)
            res.outcome(("orders", len(orders)))
            if len(res.samples) < 1 and len(orders) > 3:
                res.sample({"instances": spec, "answer_orders_explored": len(orders), "one_order": list(sorted(orders)[len(orders) // 2])})
        res.counters["replay_divergences"] += len(diverged)
        if diverged and not res.violations:
            from mc.core import HarnessError

            raise HarnessError(f"{len(diverged)} replayed prefixes diverged without any oracle violation: {diverged[0]}")
    return res


def replay(case):
    res = Res()
    if case["part"] == "seq":
        try:
            run_sequence(case["kind"], case["names"], res, case)
        finally:
            set_zone("UTC")
    else:
        spec = [(k, list(n)) for k, n in case["spec"]]
        ch = X.Chooser(case["choices"] or [])
        run_interleaved(ch, spec, res, case)
    return res.violations


def finalize(merged, tier, seed):
    # closure: every (state, op) pair executed?  transitions are (state, op, next); count distinct (state, op)
    mx = merged.counters.pop("max_schedules_per_pair", 0)
    return {
        "exhaustive": True,
        "sequence_depth": depth(tier),
        "alphabet_sizes": {"type1": len(ALPHA[1]), "type2": len(ALPHA[2])},
        "interleaving_schedules": merged.counters.get("interleaving_schedules", 0),
        "operation_pairs": merged.counters.get("operation_pairs", 0),
        "graph_closed": all((k, s, name) in merged.sets.get("state_op", ()) for (k, s) in merged.sets.get("kind_state", ()) for name in ALPHA[k]),
        "state_operation_pairs_executed": len(merged.sets.get("state_op", ())),
        "space": f"all sequences to depth {depth(tier)} per API type; all answer orders for every listed pair of instances",
    }
