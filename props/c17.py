"""C17 - the bridge listens exactly while running and leaves nothing behind.

Model checking of the bridge lifecycle on real UDP sockets: every sequence of actions up to depth D
(quick 4 on one and two ports, 3 on three; thorough 6 on one port, 5 on two, 4 on three) over
    start | stop | async-with (body sends a broadcast) | async-with whose body raises |
    send a valid broadcast to port i | occupy port i with a foreign socket | release port i
and, after every action, on every configured port:
    is_running == model.running;
    a fresh socket can bind the port (after the loop has cycled)  <=>  the port is neither listening
    nor occupied by the harness;
    a probe broadcast produces exactly one callback iff the port is listening, none otherwise
    (in particular never after stop returned);
    a failing start raises OSError and leaves is_running and the listening set as before the call;
    stop never raises; a body exception propagates and the bridge is stopped.
A breadth-first search over (model state, bridge object fingerprint) runs to a fixpoint.
TLA+ conformance: TLC checks tla/BridgeLifecycle.tla (invariants = the statement's clauses) for 1, 2 and 3 ports and
dumps its complete state graph; every edge is replayed on a real bridge and the observed (running, listening set,
occupied set) compared with the model's source and target state.
Twin bridges: two bridges in one process (each on its own port, and - second family - both on the same port), all sequences of their starts and stops to
depth 4 (6): one bridge's start/stop never changes the other's flag, port or deliveries.
In-flight datagrams: one user task starts the bridge, sends 1..3 broadcasts, lets k = 0..8 (thorough 16)
loop cycles pass and stops (or leaves the context); the deliveries made by the time stop returned are
final - every k is executed, so a delivery deferred past stop by any number of cycles is seen.
"""
import itertools
import socket

from mc.bridgeworld import BridgeWorld
from mc.core import Res, khash
from mc.fingerprint import bridge_state, modules_digest
from mc.world import Capture, Clock, can_bind, port_block, set_zone
from ref import broadcast as B

ID = "C17"
LEVEL = "model_checking"
RULE = (
    "states = distinct (running, listening set, occupied set, bridge object fingerprint, module-state digest); transitions = distinct "
    "(state, action, next state); traces = action sequences executed on a real bridge with real sockets. distinct_nontrivial = distinct "
    "sequences in which the bridge was started at least once (successfully or not)."
)
ASSUMPTIONS = [
    "the UDP ports of the harness's block are private to this process (flock), so bindability reflects only the bridge and the harness",
    "start on a bridge that is already running: the statement is silent; it may fail with OSError (its own ports are taken) or return without doing anything; afterwards either the running bridge is as it was or nothing is left listening - is_running must agree with the sockets",
    "probe broadcasts are part of the observation (they do not change the model state)",
]


class Boom(Exception):
    pass


class Abort(BaseException):
    """A body failure that is not an Exception (like cancellation)."""


BODY_EXC = {"ctx_raise": Boom, "ctx_raise_os": OSError, "ctx_raise_conn": ConnectionResetError, "ctx_raise_base": Abort}
CTX = ("ctx_ok", "ctx_raise", "ctx_raise_os", "ctx_raise_conn", "ctx_raise_base")


def actions_for(nports):
    acts = ["start", "stop", "ctx_ok", "ctx_raise", "ctx_raise_os", "ctx_raise_conn", "ctx_raise_base"]
    for i in range(nports):
        acts += [f"send{i}", f"occupy{i}", f"release{i}"]
    return acts


def m0():
    return {"running": False, "listening": frozenset(), "occupied": frozenset()}


def enabled(m, a, nports):
    if a.startswith("occupy"):
        i = int(a[6:])
        return i not in m["listening"] and i not in m["occupied"]
    if a.startswith("release"):
        return int(a[7:]) in m["occupied"]
    return True


def start_succeeds(m, nports):
    return not m["listening"] and not m["occupied"]


def model_next(m, a, nports):
    m = dict(m)
    allp = frozenset(range(nports))
    if a == "start":
        if start_succeeds(m, nports):
            m.update(running=True, listening=allp)
    elif a == "stop":
        m.update(running=False, listening=frozenset())
    elif a in CTX:
        if start_succeeds(m, nports):
            m.update(running=False, listening=frozenset())
    elif a.startswith("occupy"):
        m["occupied"] = m["occupied"] | {int(a[6:])}
    elif a.startswith("release"):
        m["occupied"] = m["occupied"] - {int(a[7:])}
    return m


def sequences(prefix, max_len, nports):
    acts = actions_for(nports)
    m = m0()
    for a in prefix:
        if not enabled(m, a, nports):
            return
        m = model_next(m, a, nports)

    def rec(seq, m):
        yield seq
        if len(seq) < max_len:
            for a in acts:
                if enabled(m, a, nports):
                    yield from rec(seq + [a], model_next(m, a, nports))

    yield from rec(list(prefix), m)


class World:
    def __init__(self, nports):
        self.nports = nports
        self.bw = BridgeWorld(nports)
        self.ports = self.bw.ports
        self.m = m0()
        self.foreign = {}
        self.nprobe = 0

    def close(self):
        for s in self.foreign.values():
            s.close()
        self.bw.close()

    def fingerprint(self):
        return (self.m["running"], tuple(sorted(self.m["listening"])), tuple(sorted(self.m["occupied"])), bridge_state(self.bw.bridge), modules_digest())

    def probe(self, i, res, case, tag):
        """Send one valid broadcast to port i; exactly one callback iff listening."""
        self.nprobe += 1
        name = "probe%d" % self.nprobe
        n0 = len(self.bw.calls)
        try:
            self.bw.send(self.ports[i], B.encode("V4", name=name))
        except OSError:
            pass
        self.bw.settle()
        got = [d.name for d in self.bw.calls[n0:]]
        want = [name] if i in self.m["listening"] else []
        if got != want:
            kind = "callback-after-stop" if not want else "listening-port-deaf"
            res.violation(f"{kind}", case, f"{tag}: broadcast to port #{i} ({'listening' if want else 'not listening'} in the model) produced callbacks {got}", want, got)
            return False
        return True

    def check(self, res, case, tag):
        ok = True
        self.bw.settle()
        try:
            flag = self.bw.bridge.is_running
        except Exception as exc:  # noqa: BLE001
            flag = repr(exc)
        if flag is not self.m["running"]:
            res.violation(f"is-running:{'stuck-true' if flag else 'false-while-listening'}", case, f"{tag}: is_running={flag}, the model says {self.m['running']}", self.m["running"], flag)
            ok = False
        for i in range(self.nports):
            taken = i in self.m["listening"] or i in self.m["occupied"]
            free = can_bind(self.ports[i])
            if free == taken:
                what = "port-left-bound" if not taken else "port-not-bound"
                res.violation(what, case, f"{tag}: port #{i} is {'bindable' if free else 'not bindable'}, the model says it is {'taken' if taken else 'free'} (listening {sorted(self.m['listening'])}, occupied {sorted(self.m['occupied'])})", not taken, free)
                ok = False
        for i in range(self.nports):
            ok = self.probe(i, res, case, tag) and ok
        if self.bw.loop.exc_log:
            res.violation("loop-exception", case, f"{tag}: loop exception handler called: {self.bw.loop.exc_log}")
            del self.bw.loop.exc_log[:]
            ok = False
        return ok

    def step(self, a, res, case, n):
        tag = f"after action #{n} {a} of {case['actions']}"
        m = self.m
        br = self.bw.bridge
        ok = True
        if a == "start":
            will = start_succeeds(m, self.nports)
            out = self.bw.run(br.start())
            if will and out[0] != "ok":
                res.violation("start-fails", case, f"{tag}: start on free ports -> {out[0]} {out[1]!r}")
                ok = False
            if not will and m["occupied"] and (out[0] != "exc" or not isinstance(out[1], OSError)):
                res.violation("failing-start-does-not-raise", case, f"{tag}: start with a port taken -> {out[0]} {out[1]!r}", "OSError", repr(out[1]))
                ok = False
            if not will and m["running"]:
                # start on a bridge that is already running: the statement is silent. Accepted: it fails with OSError (its own
                # ports are taken) or it returns without doing anything; afterwards the bridge is as it was or nothing is left
                # listening - is_running must agree with the sockets either way (checked below)
                if out[0] == "exc" and not isinstance(out[1], OSError):
                    res.violation("failing-start-does-not-raise", case, f"{tag}: start on a running bridge -> {out[1]!r}", "OSError or a no-op", repr(out[1]))
                    ok = False
                if br.is_running is False:
                    self.m = dict(m, running=False, listening=frozenset())
                    return self.check(res, case, tag) and ok
        elif a == "stop":
            out = self.bw.run(br.stop())
            if out[0] != "ok":
                res.violation("stop-raises", case, f"{tag}: stop -> {out[0]} {out[1]!r}")
                ok = False
        elif a in CTX:
            will = start_succeeds(m, self.nports)
            seen = {}

            async def body():
                async with br as entered:
                    seen["entered"] = entered
                    seen["running"] = br.is_running
                    n0 = len(self.bw.calls)
                    self.bw.send(self.ports[0], B.encode("MINI", name="inside"))
                    import asyncio

                    for _ in range(6):
                        await asyncio.sleep(0)
                    seen["inside"] = [d.name for d in self.bw.calls[n0:]]
                    if a in BODY_EXC:
                        raise BODY_EXC[a]("body failed")

            out = self.bw.run(body())
            if will:
                if seen.get("entered") is not br or seen.get("running") is not True or seen.get("inside") != ["inside"]:
                    res.violation("context-entry", case, f"{tag}: inside the context is_running={seen.get('running')}, deliveries {seen.get('inside')}")
                    ok = False
                if a in BODY_EXC and (out[0] != "exc" or type(out[1]) is not BODY_EXC[a]):
                    res.violation("body-exception-swallowed", case, f"{tag}: body raised {BODY_EXC[a].__name__}, caller saw {out[0]} {out[1]!r}")
                    ok = False
                if a == "ctx_ok" and out[0] != "ok":
                    res.violation("context-fails", case, f"{tag}: {out[0]} {out[1]!r}")
                    ok = False
            elif m["running"] and seen:
                # `async with` on a running bridge whose start is a no-op: the body ran, the exit stopped the bridge
                if a in BODY_EXC and (out[0] != "exc" or type(out[1]) is not BODY_EXC[a]):
                    res.violation("body-exception-swallowed", case, f"{tag}: body raised {BODY_EXC[a].__name__}, caller saw {out[0]} {out[1]!r}")
                    ok = False
                self.m = dict(m, running=False, listening=frozenset())
                return self.check(res, case, tag) and ok
            elif out[0] != "exc" or not isinstance(out[1], OSError) or seen:
                res.violation("failing-start-does-not-raise", case, f"{tag}: async with with a port taken -> {out[0]} {out[1]!r} (body entered: {bool(seen)})")
                ok = False
            if not will and m["running"] and br.is_running is False:
                self.m = dict(m, running=False, listening=frozenset())
                return self.check(res, case, tag) and ok
        elif a.startswith("send"):
            pass  # the probes of check() are the sends
        elif a.startswith("occupy"):
            i = int(a[6:])
            s = socket.socket(socket.AF_INET, socket.SOCK_DGRAM)
            try:
                s.bind(("0.0.0.0", self.ports[i]))
            except OSError as exc:
                s.close()
                res.violation("port-left-bound", case, f"{tag}: the harness cannot take port #{i} although the model says it is free: {exc}")
                return False
            self.foreign[i] = s
        elif a.startswith("release"):
            self.foreign.pop(int(a[7:])).close()
        self.m = model_next(m, a, self.nports)
        return self.check(res, case, tag) and ok


def run_history(nports, actions, res, case, graph=True):
    set_zone("UTC")
    with Clock(1_700_000_000.0), Capture():
        wd = World(nports)
        try:
            st = wd.fingerprint()
            if graph:
                res.state(st)
            for n, a in enumerate(actions):
                ok = wd.step(a, res, case, n)
                if graph:
                    st2 = wd.fingerprint()
                    res.state(st2)
                    res.transition((st, a, st2))
                    st = st2
                if not ok:
                    return False
            return True
        finally:
            wd.close()


def history_fingerprint(nports, actions):
    set_zone("UTC")
    r = Res()
    with Clock(1_700_000_000.0), Capture():
        wd = World(nports)
        try:
            for n, a in enumerate(actions):
                if not wd.step(a, r, {"actions": actions}, n):
                    break
            return wd.fingerprint(), wd.m
        finally:
            wd.close()


def bfs(nports, res):
    from collections import deque

    acts = actions_for(nports)
    fp, m = history_fingerprint(nports, [])
    seen = {khash(fp): []}
    frontier = deque([([], m)])
    last = 0
    while frontier:
        hist, m = frontier.popleft()
        for a in acts:
            if not enabled(m, a, nports):
                continue
            actions = hist + [a]
            case = {"part": "seq", "nports": nports, "actions": actions}
            run_history(nports, actions, res, case)
            res.traces += 1
            fp2, m2 = history_fingerprint(nports, actions)
            k = khash(fp2)
            if k not in seen:
                seen[k] = actions
                frontier.append((actions, m2))
                last = max(last, len(actions))
        if len(seen) > 600:
            return False, len(seen), last
    return True, len(seen), last


def inflight(res, nports, k, how, ndg):
    """One user task: start, send ndg broadcasts, let k loop cycles pass, stop (or leave the context);
    whatever was delivered by the time stop returned is final - no callback may come later."""
    import asyncio

    set_zone("UTC")
    case = {"part": "inflight", "nports": nports, "k": k, "how": how, "ndg": ndg}
    with Clock(1_700_000_000.0), Capture():
        bw = BridgeWorld(nports)
        seen = {}
        try:
            async def user():
                br = bw.bridge
                if how == "stop":
                    await br.start()
                    for j in range(ndg):
                        bw.send(bw.ports[j % nports], B.encode("V4", name="f%d" % j))
                    for _ in range(k):
                        await asyncio.sleep(0)
                    await br.stop()
                else:
                    async with br:
                        for j in range(ndg):
                            bw.send(bw.ports[j % nports], B.encode("V4", name="f%d" % j))
                        for _ in range(k):
                            await asyncio.sleep(0)
                seen["at_return"] = [d.name for d in bw.calls]
                for _ in range(8):
                    await asyncio.sleep(0)
                seen["later"] = [d.name for d in bw.calls]

            out = bw.run(user())
            bw.settle()
            final = [d.name for d in bw.calls]
            res.case(("inflight", nports, k, how, ndg))
            res.traces += 1
            res.outcome(("inflight", len(seen.get("at_return", []))))
            if out[0] != "ok":
                res.violation("inflight-scenario-fails", case, f"start/send/{how} with {k} loop cycles in between -> {out[0]} {out[1]!r}")
            elif seen["later"] != seen["at_return"] or final != seen["at_return"]:
                res.violation("callback-after-stop", case,
                              f"{ndg} broadcast(s) sent, {k} loop cycle(s) later {how} returned with deliveries {seen['at_return']}; afterwards the callback log grew to {final}",
                              seen["at_return"], final)
            elif len(final) != len(set(final)):
                res.violation("delivery-duplicated", case, f"deliveries {final}")
            for i, pnum in enumerate(bw.ports):
                if not can_bind(pnum):
                    res.violation("port-left-bound", case, f"port #{i} still bound after {how} returned and the loop cycled")
        finally:
            bw.close()


def twin_shared(res, actions):
    """Two bridges configured with the SAME port: only one can listen at a time; a failing start or a stop of the
    one that is not listening never disturbs the one that is."""
    set_zone("UTC")
    case = {"part": "twin-shared", "actions": actions}
    port = port_block().ports[0]
    with Clock(1_700_000_000.0), Capture():
        a = BridgeWorld(1, ports=[port])
        b = BridgeWorld(1, loop=a.loop, ports=[port])
        bw = {"A": a, "B": b}
        owner = None  # which bridge listens
        nprobe = 0
        try:
            for n, act in enumerate(actions):
                who, what = act[-1], act[:-1]
                w = bw[who]
                tag = f"after action #{n} {act} of {actions}"
                out = w.run(w.bridge.start() if what == "start" else w.bridge.stop())
                if what == "start":
                    if owner is None:
                        if out[0] != "ok":
                            res.violation("start-fails", case, f"{tag}: {out[0]} {out[1]!r}")
                            return
                        owner = who
                    elif owner == who:
                        # start on the running bridge itself: OSError or a no-op; "nothing left listening" is the other accepted reading
                        if out[0] == "exc" and not isinstance(out[1], OSError):
                            res.violation("failing-start-does-not-raise", case, f"{tag}: second start -> {out[0]} {out[1]!r}")
                            return
                        if w.bridge.is_running is False:
                            owner = None
                    else:
                        if out[0] != "exc" or not isinstance(out[1], OSError):
                            res.violation("failing-start-does-not-raise", case, f"{tag}: the port is taken by bridge {owner}: {out[0]} {out[1]!r}")
                            return
                else:
                    if out[0] != "ok":
                        res.violation("stop-raises", case, f"{tag}: {out[0]} {out[1]!r}")
                        return
                    if owner == who:
                        owner = None
                a.settle()
                for name in ("A", "B"):
                    if bw[name].bridge.is_running is not (owner == name):
                        res.violation("twin:is-running", case, f"{tag}: bridge {name} is_running={bw[name].bridge.is_running}, the port is held by {owner}")
                        return
                if can_bind(port) != (owner is None):
                    res.violation("twin:port", case, f"{tag}: the shared port is {'free' if can_bind(port) else 'bound'}, holder per model: {owner}")
                    return
                nprobe += 1
                na, nb = len(a.calls), len(b.calls)
                a.send(port, B.encode("V4", name="s%d" % nprobe))
                a.settle()
                got = {"A": len(a.calls) - na, "B": len(b.calls) - nb}
                want = {"A": 1 if owner == "A" else 0, "B": 1 if owner == "B" else 0}
                if got != want:
                    res.violation("twin:delivery", case, f"{tag}: broadcast on the shared port (held by {owner}) -> callbacks {got}, expected {want}")
                    return
        finally:
            for x in (a, b):
                try:
                    x.run(x.bridge.stop())
                except Exception:  # noqa: BLE001
                    pass
            a.loop.finish()


def twin(res, actions):
    """Two bridges in one process and one loop, each on its own port: what one does must not touch the other."""
    set_zone("UTC")
    case = {"part": "twin", "actions": actions}
    ports = port_block().ports[:2]
    with Clock(1_700_000_000.0), Capture():
        a = BridgeWorld(1, ports=[ports[0]])
        b = BridgeWorld(1, loop=a.loop, ports=[ports[1]])
        bw = {"A": a, "B": b}
        running = {"A": False, "B": False}
        nprobe = [0]
        try:
            for n, act in enumerate(actions):
                who, what = act[-1], act[:-1]
                w = bw[who]
                out = w.run(w.bridge.start() if what == "start" else w.bridge.stop())
                tag = f"after action #{n} {act} of {actions}"
                if what == "start":
                    if running[who]:
                        if out[0] == "exc" and not isinstance(out[1], OSError):
                            res.violation("failing-start-does-not-raise", case, f"{tag}: second start -> {out[0]} {out[1]!r}")
                            return
                        if w.bridge.is_running is False:
                            running[who] = False
                    elif out[0] != "ok":
                        res.violation("start-fails", case, f"{tag}: {out[0]} {out[1]!r}")
                        return
                    else:
                        running[who] = True
                else:
                    if out[0] != "ok":
                        res.violation("stop-raises", case, f"{tag}: {out[0]} {out[1]!r}")
                        return
                    running[who] = False
                a.settle()
                for name in ("A", "B"):
                    x = bw[name]
                    if x.bridge.is_running is not running[name]:
                        res.violation("twin:is-running", case, f"{tag}: bridge {name} is_running={x.bridge.is_running}, expected {running[name]}")
                        return
                    free = can_bind(x.ports[0])
                    if free == running[name]:
                        res.violation("twin:port", case, f"{tag}: bridge {name}'s port is {'free' if free else 'bound'} although {name} is {'running' if running[name] else 'stopped'}")
                        return
                    nprobe[0] += 1
                    n0 = len(x.calls)
                    other0 = len(bw["B" if name == "A" else "A"].calls)
                    x.send(x.ports[0], B.encode("V4", name="t%d" % nprobe[0]))
                    a.settle()
                    got = len(x.calls) - n0
                    if got != (1 if running[name] else 0) or len(bw["B" if name == "A" else "A"].calls) != other0:
                        res.violation("twin:delivery", case, f"{tag}: broadcast to bridge {name} ({'running' if running[name] else 'stopped'}) -> {got} callbacks on {name}, {len(bw['B' if name == 'A' else 'A'].calls) - other0} on the other bridge")
                        return
        finally:
            for x in (a, b):
                try:
                    x.run(x.bridge.stop())
                except Exception:  # noqa: BLE001
                    pass
            a.loop.finish()


TLA_ACTION = {"StartOk": "start", "StartFail": "start", "Stop": "stop", "CtxOk": "ctx_ok", "CtxFail": "ctx_ok"}


def tla_conformance(res, nports):
    """TLC explores tla/BridgeLifecycle.tla completely (its invariants are the statement's clauses); every edge
    of its reachable state graph is then replayed on a real bridge and the observed (running, listening,
    occupied) is compared with the model's source and target states."""
    from mc import tla

    if not tla.available():
        res.notes.append("tlc not on PATH: TLA+ conformance part skipped")
        return
    try:
        states, edges, init, summary = tla.state_graph("BridgeLifecycle", {"Ports": "{" + ", ".join(map(str, range(nports))) + "}"})
    except Exception as exc:  # noqa: BLE001 - the TLA+ part is an addition; without a working TLC it is skipped, never failed
        res.notes.append(f"TLC run failed, TLA+ conformance part skipped: {str(exc)[:200]}")
        return
    paths = tla.shortest_paths(states, edges, init)
    res.add("tla", (nports, len(states), len(edges), summary))

    def name(a, arg):
        return TLA_ACTION.get(a) or (("occupy" if a == "Occupy" else "release") + str(arg))

    def observe(wd):
        wd.bw.settle()
        occ = frozenset(wd.foreign)
        lis = frozenset(i for i in range(nports) if i not in occ and not can_bind(wd.ports[i]))
        return {"running": wd.bw.bridge.is_running, "listening": lis, "occupied": occ}

    for src, a, arg, dst in edges:
        actions = [name(x, y) for x, y in paths[src]] + [name(a, arg)]
        case = {"part": "tla", "nports": nports, "actions": actions, "edge": [a, arg]}
        set_zone("UTC")
        with Clock(1_700_000_000.0), Capture():
            wd = World(nports)
            try:
                ok = True
                for n, act in enumerate(actions[:-1]):
                    ok = wd.step(act, res, case, n) and ok
                before = observe(wd)
                if ok and before != states[src]:
                    res.violation("tla-conformance:source-state", case, f"after {actions[:-1]} the bridge shows {before}, the model state is {states[src]}")
                    ok = False
                if ok:
                    ok = wd.step(actions[-1], res, case, len(actions) - 1)
                    after = observe(wd)
                    alt = {"running": False, "listening": frozenset(), "occupied": states[src]["occupied"]}
                    if ok and a in ("StartFail", "CtxFail") and states[src]["running"] and after == alt:
                        pass  # the other accepted reading of a failing start on a running bridge (section 4)
                    elif ok and after != states[dst]:
                        res.violation(f"tla-conformance:{a}", case, f"model edge {a}{'' if arg is None else '(%d)' % arg} from {states[src]} leads to {states[dst]}; the bridge shows {after}")
                res.traces += 1
                res.case(("tla", nports, tuple(actions)))
                res.state(("tla", nports, tuple(sorted((k, tuple(sorted(v)) if isinstance(v, frozenset) else v) for k, v in states[dst].items()))))
                res.transition(("tla", nports, src, a, arg, dst))
            finally:
                wd.close()


def bad_port(res):
    """start fails on a later port for a reason other than 'address in use' (a port number no socket accepts):
    the error is raised - whatever its class - and nothing is left listening."""
    set_zone("UTC")
    good = port_block().ports[:2]
    for bad in (70000, 65536, -1, 1 << 20):
        for ports in ([good[0], bad], [good[0], good[1], bad], [bad, good[0]]):
            case = {"part": "badport", "ports": ["good" if p in good else p for p in ports]}
            with Clock(1_700_000_000.0), Capture():
                bw = BridgeWorld(ports=ports)
                try:
                    out = bw.run(bw.bridge.start())
                    bw.settle()
                    res.case(("badport", tuple(case["ports"])))
                    res.traces += 1
                    if out[0] != "exc":
                        res.violation("failing-start-does-not-raise", case, f"start on ports {case['ports']} -> {out[0]} {out[1]!r}")
                        continue
                    if bw.bridge.is_running is not False:
                        res.violation("is-running:stuck-true", case, f"start on ports {case['ports']} raised {out[1]!r} but is_running={bw.bridge.is_running}")
                    for p in ports:
                        if p in good and not can_bind(p):
                            res.violation("port-left-bound", case, f"start on ports {case['ports']} raised {type(out[1]).__name__} but port {'#%d' % ports.index(p)} stayed bound")
                    n0 = len(bw.calls)
                    for p in ports:
                        if p in good:
                            bw.send(p, B.encode("V4", name="late"))
                    bw.settle()
                    if len(bw.calls) != n0:
                        res.violation("callback-after-stop", case, f"start on ports {case['ports']} failed, yet a broadcast was delivered afterwards")
                finally:
                    bw.close()


CANCEL_PRE = ([], ["start", "stop"], ["ctx_ok"], ["occupy0", "start", "release0"])


def cancelled_start(res, nports, pre, k):
    """start() is abandoned by its caller (cancelled, which is also what a timeout does) after k event-loop iterations:
    the stop() that follows must release everything the abandoned start had opened, and the bridge must start normally afterwards."""
    from mc.world import task_outcome

    case = {"part": "cancelstart", "nports": nports, "pre": list(pre), "k": k, "actions": list(pre) + [f"start cancelled after {k} loop iterations", "stop", "start", "stop"]}
    set_zone("UTC")
    with Clock(1_700_000_000.0), Capture():
        wd = World(nports)
        try:
            for n, a in enumerate(pre):
                if not wd.step(a, res, case, n):
                    return None
            loop = wd.bw.loop
            task = loop.create_task(wd.bw.bridge.start())
            for _ in range(k):
                loop.step()
            task.cancel()
            loop.settle()
            if not task.done():
                res.violation("cancelled-start-hangs", case, f"start cancelled after {k} loop iterations never finished")
                return None
            out = task_outcome(task)
            tag = f"after start was cancelled after {k} loop iterations ({'completed first' if out[0] == 'ok' else out[0]}) following {list(pre)}"
            if out[0] == "ok":
                wd.m = model_next(wd.m, "start", nports)
            elif out[0] == "exc":
                res.violation("cancelled-start-raises", case, f"{tag}: {out[1]!r}")
                return None
            if out[0] == "ok":
                ok = wd.check(res, case, tag)
            else:
                # what an abandoned start leaves bound until the next stop() is not judged (the statement speaks of a start
                # that fails on a port); but stop() is a stop call like any other: once it returns every port is released
                # and no callback is made any more - whatever the abandoned start had opened
                ok = wd.step("stop", res, case, len(pre) + 1)
                if ok:
                    ok = wd.step("start", res, case, len(pre) + 2)
            if ok:
                wd.step("stop", res, case, len(pre) + 3)
            return out[0]
        finally:
            wd.close()


def two_loops(res, nports, pre, close_first):
    """One bridge object used under two event loops one after the other (two asyncio.run calls in one process):
    a stopped bridge can be started again."""
    from mc.world import new_loop

    case = {"part": "twoloops", "nports": nports, "pre": list(pre), "close_first": close_first, "actions": list(pre) + ["<new event loop>", "start", "stop", "ctx_ok"]}
    set_zone("UTC")
    with Clock(1_700_000_000.0), Capture():
        wd = World(nports)
        old = wd.bw.loop
        try:
            for n, a in enumerate(pre):
                if not wd.step(a, res, case, n):
                    return
            if close_first:
                old.finish()
            wd.bw.loop = new_loop()
            for n, a in enumerate(["start", "stop", "ctx_ok"]):
                if not wd.step(a, res, case, len(pre) + 1 + n):
                    return
        finally:
            wd.close()
            if not close_first:
                old.finish()


def plan(tier):
    return [(1, 4 if tier == "quick" else 6), (2, 4 if tier == "quick" else 5)] + ([(3, 4)] if tier == "thorough" else [(3, 3)])


def jobs(tier, seed):
    js = []
    for nports, depth in plan(tier):
        acts = actions_for(nports)
        for a in acts:
            for b in acts:
                js.append({"part": "seq", "nports": nports, "prefix": [a, b], "depth": depth})
        js.append({"part": "short", "nports": nports})
    for nports in (1, 2):
        js.append({"part": "bfs", "nports": nports})
    js.append({"part": "four"})
    for nports in (1, 2, 3):
        js.append({"part": "tla", "nports": nports})
    js.append({"part": "inflight", "tier": tier})
    js.append({"part": "badport"})
    js.append({"part": "cancelstart"})
    js.append({"part": "twoloops"})
    js.append({"part": "twin", "depth": 4 if tier == "quick" else 6})
    return js


def run_job(job):
    res = Res()
    if job["part"] == "bfs":
        closed, n, d = bfs(job["nports"], res)
        res.add("bfs", (job["nports"], closed, n, d))
        return res
    if job["part"] == "cancelstart":
        for nports in (1, 2, 3):
            for pre in CANCEL_PRE:
                outs = set()
                for k in range(0, 4 * nports + 3):
                    o = cancelled_start(res, nports, pre, k)
                    outs.add(o)
                    res.traces += 1
                    res.case(("cancelstart", nports, tuple(pre), k), nontrivial=o == "cancelled")
                res.outcome(("cancelstart", nports, tuple(sorted(map(str, outs)))))
        res.sample({"part": "cancelstart", "nports": 2, "pre": [], "k": 2, "expect": "after the following stop nothing is listening; then start/stop work"})
        return res
    if job["part"] == "twoloops":
        for nports in (1, 2):
            for pre in ([], ["start", "stop"], ["ctx_ok"], ["ctx_raise"], ["occupy0", "start", "release0"], ["start", "stop", "start", "stop"]):
                for close_first in (True, False):
                    two_loops(res, nports, pre, close_first)
                    res.traces += 1
                    res.case(("twoloops", nports, tuple(pre), close_first), nontrivial=bool(pre))
        res.sample({"part": "twoloops", "nports": 2, "pre": ["start", "stop"], "close_first": True})
        return res
    if job["part"] == "badport":
        bad_port(res)
        res.sample({"part": "badport", "ports": ["good", 70000], "expect": "start raises, the good port is free again"})
        return res
    if job["part"] == "tla":
        tla_conformance(res, job["nports"])
        res.sample({"part": "tla", "model": "tla/BridgeLifecycle.tla", "ports": job["nports"], "edge": "Occupy(0) then StartFail: self-loop, OSError, nothing bound"})
        return res
    if job["part"] == "twin":
        acts = ["startA", "stopA", "startB", "stopB"]
        for n in range(1, job["depth"] + 1):
            for seq in itertools.product(acts, repeat=n):
                twin(res, list(seq))
                twin_shared(res, list(seq))
                res.traces += 2
                res.case(("twin", seq))
                res.case(("twin-shared", seq))
        res.sample({"part": "twin", "actions": ["startA", "startB", "stopA"], "expect": "B keeps delivering, A's port is free"})
        return res
    if job["part"] == "inflight":
        for nports in (1, 2):
            for k in range(0, 9 if job["tier"] == "quick" else 17):
                for how in ("stop", "ctx"):
                    for ndg in (1, 2, 3):
                        inflight(res, nports, k, how, ndg)
        res.sample({"part": "inflight", "nports": 1, "k": 2, "how": "stop", "ndg": 1})
        return res
    if job["part"] == "four":
        # one four-port run (the bridge's default configuration has four ports)
        for actions in (["start", "stop", "start", "stop"], ["occupy3", "start", "release3", "start", "stop"], ["ctx_ok", "occupy0", "ctx_raise", "release0", "ctx_raise"]):
            case = {"part": "seq", "nports": 4, "actions": actions}
            run_history(4, actions, res, case)
            res.traces += 1
            res.case(("seq", 4, tuple(actions)))
        return res
    nports = job["nports"]
    if job["part"] == "short":
        seqs = [[a] for a in actions_for(nports) if enabled(m0(), a, nports)] + [[]]
    else:
        seqs = list(sequences(job["prefix"], job["depth"], nports))
    for actions in seqs:
        case = {"part": "seq", "nports": nports, "actions": actions}
        run_history(nports, actions, res, case)
        res.traces += 1
        res.outcome((nports, tuple(actions[-2:])))
        res.case(("seq", nports, tuple(actions)), nontrivial=any(a == "start" or a in CTX for a in actions))
    if job["part"] == "seq" and job["prefix"] == ["occupy1", "start"]:
        res.sample({"ports": nports, "history": ["occupy1", "start", "release1", "start", "stop"][: job["depth"] + 1], "note": "start must fail with port #1 taken and leave port #0 free"})
    return res


def replay(case):
    res = Res()
    if case.get("part") == "cancelstart":
        cancelled_start(res, case["nports"], case["pre"], case["k"])
        return res.violations
    if case.get("part") == "twoloops":
        two_loops(res, case["nports"], case["pre"], case["close_first"])
        return res.violations
    if case.get("part") == "badport":
        bad_port(res)
        return [v for v in res.violations if v["case"] == case] or res.violations
    if case.get("part") == "tla":
        r2 = Res()
        tla_conformance(r2, case["nports"])
        return [v for v in r2.violations if v["case"].get("actions") == case["actions"]] or r2.violations
    if case.get("part") == "twin":
        twin(res, case["actions"])
        return res.violations
    if case.get("part") == "twin-shared":
        twin_shared(res, case["actions"])
        return res.violations
    if case.get("part") == "inflight":
        inflight(res, case["nports"], case["k"], case["how"], case["ndg"])
        return res.violations
    run_history(case["nports"], case["actions"], res, case, graph=False)
    return res.violations


def selftest():
    B.selftest()


def finalize(merged, tier, seed):
    b = sorted(merged.sets.get("bfs", ()))
    return {
        "exhaustive": True,
        "depth_per_port_count": {str(n): d for n, d in plan(tier)},
        "bfs_fixpoint": [{"ports": n, "closed": c, "states": s, "depth_of_last_new_state": d} for n, c, s, d in b],
        "graph_closed": bool(b) and all(c for _, c, _, _ in b),
        "tla_models": [{"ports": n, "model_states": st, "model_edges_replayed": ed, "tlc": summ} for n, st, ed, summ in sorted(merged.sets.get("tla", ()))],
        "space": "all enabled action sequences to the stated depth for 1, 2 and 3 ports + BFS fixpoint + a 4-port run",
    }
