"""C16 - thermostat control changes only what was asked.

The control exchange (login -> [read state -> main command | status update] -> [swing command]) is a
small protocol; every path through it is executed on the real client against a fake thermostat:
reported states x requested subsets/values x remote kinds (toggle / non-toggle x separate swing or
not) x update-only flag, and an end-of-stream injected at each step of each exchange shape.
Frames are decoded by the reference layout; the IR text names the key that was chosen, which is
compared with the reference selection applied to the *merged* values (requested, else reported).
"""
import itertools
import struct

from mc.apiworld import ApiWorld, call
from mc.core import Res
from mc.world import Clock, Hang, set_zone, task_outcome
from ref import frames as F
from ref import irset as IR
from ref import replies as RP

ID = "C16"
LEVEL = "model_checking"
RULE = (
    "states = distinct protocol states (frame kinds written so far, fault position) reached by real exchanges; transitions = "
    "distinct (state, next frame kind | outcome); traces = exchanges executed on the real client, each compared with the merge "
    "model. distinct_nontrivial = distinct (reported state, request, remote kind, update flag, fault step) whose frames were decoded."
)
ASSUMPTIONS = [
    "status-update frames carry the merged values actually used for the main command (swing off for separate-swing remotes)",
    "the IR sets are generated with full key coverage so that a candidate key always exists",
    "length bytes of the command frame are judged by C01",
]

MODES = ("auto", "dry", "fan", "cool", "heat")
FANS = ("auto", "low", "medium", "high")
KINDS = [(False, False), (True, False), (False, True), (True, True)]  # (toggle, separate swing)
_cache = {}


def kit(toggle, special, modes=MODES, cov=None):
    from aioswitcher.api.remotes import SwitcherBreezeRemote

    cov = tuple(cov) if cov else ("base", "fan", "swing")
    k = (toggle, special, modes, cov)
    if k not in _cache:
        s = IR.make_set("ELEC7022" if special else "ELEC7001", toggle=toggle, modes=modes, tmin=16, tmax=30, coverage=cov, on_coverage=cov if toggle else ())
        _cache[k] = (SwitcherBreezeRemote(s), s)
    return _cache[k]


def reported_states(tier):
    targets = (16, 24, 30) if tier == "thorough" else (24,)
    fans = FANS if tier == "thorough" else ("low", "high")
    out = [dict(on=on, mode=m, target=t, fan=f, swing=sw) for on in (True, False) for m in MODES for t in targets for f in fans for sw in (True, False)]
    if tier == "thorough":
        out += [dict(on=True, mode="cool", target=t, fan="auto", swing=False) for t in range(16, 31)]
        out += [dict(on=False, mode="heat", target=t, fan="medium", swing=True) for t in (15, 31, 0, 60)]
    return out


def requests(tier):
    if tier == "thorough":
        return list(itertools.product((None, "on", "off"), (None,) + MODES, (0, 16, 23, 30), (None,) + FANS, (None, "on", "off")))
    return list(itertools.product((None, "on", "off"), (None, "cool", "dry", "heat"), (0, 16, 30), (None, "auto", "high"), (None, "on", "off")))


def model(rep, req, toggle, special, update, modes=MODES, cov=None):
    """-> dict(shape=[frame kinds], main=..., swing_key=..., error=None|'nothing'|'unsupported')"""
    st, mode, temp, fan, sw = req
    main = bool(st or mode or temp or fan or (sw and not special))
    want_swing_cmd = bool(special and sw and not update)
    if not main and not want_swing_cmd:
        return dict(shape=["login2"], error="nothing")
    shape = ["login2"]
    out = dict(error=None, main=None, swing_key=None)
    if main:
        merged = dict(
            on=(st == "on") if st else rep["on"],
            mode=mode or rep["mode"],
            temp=temp or rep["target"],
            fan=fan or rep["fan"],
            swing=False if special else ((sw == "on") if sw else rep["swing"]),
        )
        out["merged"] = merged
        shape.append("get_state2")
        if update:
            shape.append("breeze_update")
        else:
            _, ir_set = kit(toggle, special, modes, cov)
            sel = IR.select(ir_set, merged["on"], merged["mode"], merged["temp"], merged["fan"], merged["swing"], rep["on"])
            out["select"] = sel
            if sel[0] in ("unsupported-mode",):
                out["error"] = "unsupported"
                out["shape"] = shape
                return out
            shape.append("breeze_command")
    if want_swing_cmd:
        shape.append("breeze_command")
        out["swing_key"] = "FUN_d1" if sw == "on" else "FUN_d0"
    out["shape"] = shape
    return out


def thermo_reply(rep):
    return RP.thermostat(rep["on"], rep["mode"], rep["fan"], rep["swing"], 253, rep["target"], "ELEC7001")


class Runner:
    def __init__(self):
        set_zone("UTC")
        self.clock = Clock(1_700_000_000.0)
        self.clock.__enter__()
        self.w = None

    def world(self, fresh=False):
        if self.w is not None and (fresh or self.w.dirty):
            self.w.disconnect()
            self.w.__exit__(None, None, None)
            self.w = None
        if self.w is None:
            self.w = ApiWorld(2)
            assert self.w.connect()[0] == "ok"
            self.w.dirty = False
        return self.w

    def run(self, case):
        rep, req = case["rep"], tuple(case["req"])
        toggle, special, update = case["toggle"], case["special"], case["update"]
        modes = tuple(case.get("modes") or MODES)
        eof_at = case.get("eof")
        cov = case.get("cov")
        m = model(rep, req, toggle, special, update, modes, cov)
        w = self.world(fresh=eof_at is not None)
        if eof_at is not None:
            w.dirty = True
        remote, _ = kit(toggle, special, modes, cov)
        script = [Ellipsis] * 6
        if eof_at is not None:
            script[eof_at] = None
        # the device answers a valid exchange of the maximal shape; extra entries are never used
        w.device.begin(["login2", "get_state2", "generic", "generic", "generic"], script, thermo_reply(rep))
        args = {"remote_obj": remote, "state": req[0], "mode": req[1], "temp": req[2], "fan": req[3], "swing": req[4], "update": update,
                "positional": bool(case.get("positional"))}
        conn = w.conn
        w0 = len(conn.writes)
        try:
            t = w.loop.run_task(call(w.api, "breeze_main", args), w.device.respond)
            out = task_outcome(t)
        except Hang:
            out = ("hang", None)
            w.dirty = True
        conn.poll()
        return m, out, conn.writes[w0:], w


def judge(case, m, out, frames, w, res):
    rep, req = case["rep"], tuple(case["req"])
    eof_at = case.get("eof")
    desc = f"reported {rep} request(state={req[0]}, mode={req[1]}, temp={req[2]}, fan={req[3]}, swing={req[4]}) toggle={case['toggle']} separate_swing={case['special']} update={case['update']} eof_at={eof_at}"
    kinds = [F.classify(f) for f in frames]
    st = ()
    res.state(st)
    for k in kinds:
        res.transition((st, k))
        st = st + (k,)
        res.state((st, eof_at if eof_at is not None and len(st) > eof_at else None))
    res.transition((st, out[0] if out[0] != "exc" else type(out[1]).__name__))
    if out[0] == "hang":
        res.violation("hang", case, f"{desc}: exchange neither finished nor progressed")
        return False
    shape = m["shape"]
    if eof_at is not None and eof_at < len(shape):
        # the reply to frame eof_at is empty: no frame after it, and never success
        exp_frames = shape[: eof_at + 1]
        if kinds != exp_frames:
            res.violation("frames-after-empty-reply", case, f"{desc}: wrote {kinds}, expected {exp_frames} (nothing after the unanswered frame)", exp_frames, kinds)
            return False
        if out[0] == "ok":
            try:
                succ = bool(out[1].successful)
            except Exception:  # noqa: BLE001
                succ = True
            if succ:
                res.violation("success-after-empty-reply", case, f"{desc}: step {eof_at} got an empty reply but the call reported success")
                return False
        elif not isinstance(out[1], RuntimeError):
            res.violation(f"empty-reply-raises:{type(out[1]).__name__}", case, f"{desc}: raised {out[1]!r}, expected RuntimeError or an unsuccessful response")
            return False
        res.outcome(("eof", eof_at, out[0]))
        return True
    if m.get("select") and m["select"][0] == "either" and out[0] == "exc":
        # non-toggle remote, power off, reported mode unsupported: refusing is one of the two accepted readings
        if isinstance(out[1], RuntimeError) and kinds == ["login2", "get_state2"]:
            res.outcome(("refused", "either"))
            return None
    if m["error"]:
        if out[0] != "exc" or (m["error"] == "nothing" and not isinstance(out[1], RuntimeError)):
            res.violation(f"{m['error']}-not-refused", case, f"{desc}: expected RuntimeError, got {out[0]} {out[1]!r}", "RuntimeError", repr(out[1]))
            return False
        if kinds != shape:
            res.violation("frames-on-refusal", case, f"{desc}: wrote {kinds}, expected {shape}", shape, kinds)
            return False
        res.outcome(("refused", m["error"]))
        return True
    if out[0] != "ok":
        res.violation(f"valid-request-raises:{type(out[1]).__name__}", case, f"{desc}: raised {out[1]!r}")
        return False
    if kinds != shape:
        res.violation("frame-sequence", case, f"{desc}: wrote {kinds}, the model expects {shape}", shape, kinds)
        return False
    if not out[1].successful:
        res.violation("valid-exchange-unsuccessful", case, f"{desc}: response not successful")
        return False
    did = bytes.fromhex(w.device_id)
    sess = w.device.sessions[-1]
    idx = 1
    merged = m.get("merged")
    if merged is not None:
        fr = frames[2]
        h = F.decode_header(fr)
        if case["update"]:
            want = F.encode("breeze_update", session=sess, ts=h["ts"], device_id=did, state=1 if merged["on"] else 0, mode=RP.MODES[merged["mode"]],
                            target=merged["temp"] & 0xFF, fan=RP.FANS[merged["fan"]], swing=1 if merged["swing"] else 0)
            d = F.diff(want, fr, ignore={"length", "signature"})
            if d:
                b = fr[40:-4][-4:]
                res.violation("status-frame-values", case, f"{desc}: status frame {d}; it carries state/mode/temp/fan-swing = {b.hex()} , merged values are {merged}", want, fr)
                return False
        else:
            key = m["select"][1]
            want = F.encode("breeze_command", session=sess, ts=h["ts"], device_id=did, ir_text=IR.text_of(key))
            d = F.diff(want, fr, ignore={"length", "signature"})
            if d:
                got_text = fr[40 + 39 + 4 + 4:-4].decode("ascii", "replace")
                res.violation("main-command-code", case, f"{desc}: main command should carry the code of {key!r} (merged {merged}); frame carries {IR.key_of_text(got_text)!r}: {d}", key, got_text)
                return False
        idx = 3
    if m["swing_key"]:
        fr = frames[idx]
        h = F.decode_header(fr)
        want = F.encode("breeze_command", session=sess, ts=h["ts"], device_id=did, ir_text=IR.text_of(m["swing_key"]))
        d = F.diff(want, fr, ignore={"length", "signature"})
        if d:
            res.violation("swing-command-code", case, f"{desc}: swing command should carry {m['swing_key']}: {d}", m["swing_key"], fr)
            return False
    for fr in frames:
        bad = F.wellformed(fr)
        if bad:
            res.violation(f"frame-{bad[0][0]}", case, f"{desc}: {F.classify(fr)} frame fails {bad[0]}")
            return False
    res.outcome(tuple(shape))
    return True


def all_cases(tier):
    cases = []
    reps, reqs = reported_states(tier), requests(tier)
    for rep in reps:
        for req in reqs:
            for toggle, special in KINDS:
                for update in (False, True):
                    cases.append(dict(rep=rep, req=list(req), toggle=toggle, special=special, update=update))
    # the same call with every argument passed positionally (the documented order is part of the interface)
    for rep in reps[:: max(1, len(reps) // 6)]:
        for req in reqs[:: max(1, len(reqs) // 40)]:
            for toggle, special in KINDS:
                for update in (False, True):
                    cases.append(dict(rep=rep, req=list(req), toggle=toggle, special=special, update=update, positional=True))
    # end-of-stream at each step of each exchange shape, over a spread of requests
    rep0 = dict(on=False, mode="dry", target=24, fan="low", swing=False)
    ereqs = [(None, None, 0, None, "on"), ("on", None, 0, None, None), ("off", "cool", 22, "high", "on"), (None, "heat", 0, None, "off"), (None, None, 0, None, None), (None, None, 27, None, "on")]
    if tier == "thorough":
        ereqs = reqs
    for req in ereqs:
        for toggle, special in KINDS:
            for update in (False, True):
                for rep in ([rep0] if tier == "quick" else [rep0, dict(on=True, mode="heat", target=30, fan="high", swing=True)]):
                    n = len(model(rep, tuple(req), toggle, special, update)["shape"])
                    for k in range(n):
                        cases.append(dict(rep=rep, req=list(req), toggle=toggle, special=special, update=update, eof=k))
    # remotes whose code set has no swing entries at all (or none with a fan level): the status frame still reports the
    # merged swing, the IR command falls back to the entry without it
    for cov in (("base", "fan"), ("base",)):
        for rep in reps[:: max(1, len(reps) // 8)]:
            for req in ((None, None, 0, None, "on"), ("on", None, 0, None, None), (None, "fan", 0, "high", "on"), ("off", "cool", 21, None, None), (None, None, 0, "low", "off")):
                for toggle in (False, True):
                    for update in (False, True):
                        cases.append(dict(rep=rep, req=list(req), toggle=toggle, special=False, update=update, cov=list(cov)))
    # remotes that lack the merged mode
    for modes in (("cool",), ("cool", "heat"), ("auto", "dry", "fan")):
        for rep in reps[:: max(1, len(reps) // 10)]:
            for req in ((None, None, 0, "high", None), ("on", "heat", 0, None, None), ("on", "fan", 0, None, "on"), (None, "cool", 21, None, None)):
                for toggle in (False, True):
                    cases.append(dict(rep=rep, req=list(req), toggle=toggle, special=False, update=False, modes=list(modes)))
    return cases


def jobs(tier, seed):
    n = 128 if tier == "thorough" else 16
    return [{"tier": tier, "i": i, "n": n} for i in range(n)]


def run_job(job):
    res = Res()
    run = Runner()
    try:
        for case in all_cases(job["tier"])[job["i"]::job["n"]]:
            m, out, frames, w = run.run(case)
            ok = judge(case, m, out, frames, w, res)
            res.traces += 1
            res.evals += 1
            if len(frames) >= 1:
                res.kcount += 1  # cases are distinct by construction
            if ok and len(res.samples) < 1 and len(frames) == 4:
                res.sample({"case": case, "frames": [F.classify(f) for f in frames], "main_ir_text": frames[2][87:-4].decode("ascii", "replace")})
    finally:
        if run.w is not None:
            run.w.disconnect()
            run.w.__exit__(None, None, None)
        run.clock.__exit__(None, None, None)
    return res


def replay(case):
    res = Res()
    run = Runner()
    try:
        m, out, frames, w = run.run(case)
        judge(case, m, out, frames, w, res)
    finally:
        if run.w is not None:
            run.w.disconnect()
            run.w.__exit__(None, None, None)
        run.clock.__exit__(None, None, None)
    return res.violations


def finalize(merged, tier, seed):
    return {"exhaustive": True, "reported_states": len(reported_states(tier)), "requests": len(requests(tier)), "remote_kinds": 4,
            "space": "reported x requests x remote kinds x update flag + eof at every step of every shape; tier " + tier}
