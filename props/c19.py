"""C19 - device types, categories, classes and ports are mutually consistent.

Finite space, enumerated completely: 9 types x 4 classes (constructor accepts iff the type's
category is the class's own), model codes (unique, two bytes), protocol type in {1,2}, category
present, and both port tables for every category and every type.
"""
from mc.core import optimized_job as core_optimized_job, run_optimized as core_run_optimized, Res

ID = "C19"
LEVEL = "exploration"
RULE = (
    "complete enumeration: every DeviceType x every concrete device class (constructed with valid "
    "remaining arguments), every DeviceType's table row, every DeviceCategory in both port tables. "
    "All cases are distinct by construction; a case is non-trivial when the library was called/read."
)
ASSUMPTIONS = [
    "the expected category of each class is named here by its meaning (plug, water heater, thermostat, shutter)",
    "expected type table (name -> protocol type, category) is transcribed from the property text and README: "
    "Mini/Touch/V2/V4 water heaters and Power Plug are type 1, Breeze (thermostat) and Runner/Runner Mini (shutter) are type 2",
]

EXPECT_TYPES = {
    "MINI": (1, "WATER_HEATER"), "POWER_PLUG": (1, "POWER_PLUG"), "TOUCH": (1, "WATER_HEATER"),
    "V2_ESP": (1, "WATER_HEATER"), "V2_QCA": (1, "WATER_HEATER"), "V4": (1, "WATER_HEATER"),
    "BREEZE": (2, "THERMOSTAT"), "RUNNER": (2, "SHUTTER"), "RUNNER_MINI": (2, "SHUTTER"),
}
PORTS = {1: (20002, 9957), 2: (20003, 10000)}
CLASSES = {
    "SwitcherPowerPlug": "POWER_PLUG", "SwitcherWaterHeater": "WATER_HEATER",
    "SwitcherThermostat": "THERMOSTAT", "SwitcherShutter": "SHUTTER",
}


FIELDS = {
    "SwitcherPowerPlug": ("power_consumption", "electric_current"),
    "SwitcherWaterHeater": ("power_consumption", "electric_current", "remaining_time", "auto_shutdown"),
    "SwitcherThermostat": ("mode", "temperature", "target_temperature", "fan_level", "swing", "remote_id"),
    "SwitcherShutter": ("position", "direction"),
}
BASE_FIELDS = ("device_type", "device_state", "device_id", "device_key", "ip_address", "mac_address", "name")
HOWS = ("positional", "keyword", "replace", "subclass")


def _args(clsname, dtype):
    from aioswitcher import device as d

    base = (dtype, d.DeviceState.ON, "aabbcc", "18", "192.168.1.33", "12:A1:A2:1A:BC:1A", "My Device")
    if clsname == "SwitcherPowerPlug":
        return base + (100, 0.5)
    if clsname == "SwitcherWaterHeater":
        return base + (100, 0.5, "01:00:00", "02:00:00")
    if clsname == "SwitcherThermostat":
        return base + (d.ThermostatMode.COOL, 24.5, 23, d.ThermostatFanLevel.LOW, d.ThermostatSwing.OFF, "ELEC7001")
    return base + (50, d.ShutterDirection.SHUTTER_STOP)


def _build(clsname, dtype, how="positional"):
    """how: positional | keyword (every argument by name) | replace (dataclasses.replace of a valid object) | subclass (an empty subclass, positional)"""
    import dataclasses

    from aioswitcher import device as d

    if how == "replace":
        own = {"SwitcherPowerPlug": d.DeviceType.POWER_PLUG, "SwitcherWaterHeater": d.DeviceType.V4,
               "SwitcherThermostat": d.DeviceType.BREEZE, "SwitcherShutter": d.DeviceType.RUNNER}[clsname]
        return dataclasses.replace(_build(clsname, own), device_type=dtype)
    if how == "subclass":
        # an application's own (empty) subclass of a device class is still that device class
        return type("My" + clsname, (getattr(d, clsname),), {})(*_args(clsname, dtype))
    if how == "keyword":
        return getattr(d, clsname)(**dict(zip(BASE_FIELDS + FIELDS[clsname], _args(clsname, dtype))))
    return getattr(d, clsname)(*_args(clsname, dtype))


def disturb():
    """Things that happen in a process before a device object is built: a bridge that received an undecodable
    datagram and whose callback raised once. None of it may change which types a class accepts."""
    from mc.bridgeworld import BridgeWorld
    from mc.world import Capture
    from ref import broadcast as B

    from aioswitcher.bridge import SwitcherBridge

    for ports in (None, [10002, 10003], [20002], [20003, 10003], [10002], []):
        SwitcherBridge(lambda d: None) if ports is None else SwitcherBridge(lambda d: None, ports)  # constructed, never started
    with Capture():
        bw = BridgeWorld(1, raise_on=lambda n, dev: n == 0)
        try:
            bw.start()
            bad = bytearray(B.encode("TOUCH", name="x"))
            bad[42:46] = b"\xff\xfe\xfd\xfc"
            for data in (B.encode("V4", name="first"), bytes(bad), B.encode("BREEZE", name="br", model_code="7f7f"), bytes(bad)):
                bw.send(bw.ports[0], data)
                bw.settle()
        finally:
            bw.close()
    # ... and a bridge on the alternative well-known ports that heard one device of each protocol type there
    import fcntl
    import os

    lock = open("/dev/shm/aioswitcher-verif-defaultports.lock" if os.path.isdir("/dev/shm") else "/tmp/aioswitcher-verif-defaultports.lock", "w")
    fcntl.flock(lock, fcntl.LOCK_EX)
    try:
        with Capture():
            bw = BridgeWorld(ports=[10002, 10003, 20002, 20003])
            try:
                if bw.start()[0] == "ok":
                    for port, t in ((10002, "V4"), (10003, "BREEZE"), (10002, "POWER_PLUG"), (10003, "RUNNER"), (20002, "MINI"), (20003, "RUNNER_MINI"), (20003, "V4"), (20002, "BREEZE")):
                        bw.send(port, B.encode(t, name="heard"))
                        bw.settle()
                    DISTURBED["well_known_ports"] = len(bw.calls)
            finally:
                bw.close()
    finally:
        fcntl.flock(lock, fcntl.LOCK_UN)
        lock.close()


DISTURBED = {}


def jobs(tier, seed):
    return core_optimized_job([{"all": True}])


def check_case(case, res):
    from aioswitcher import device as d
    from aioswitcher import api, bridge

    k = case["kind"]
    if k == "disturb":
        disturb()
        return
    if k == "ctor":
        dtype = getattr(d.DeviceType, case["type"])
        want_ok = dtype.category.name == CLASSES[case["cls"]]
        import dataclasses

        if case.get("how") == "replace" and not dataclasses.is_dataclass(getattr(d, case["cls"])):
            res.counters["replace_not_applicable"] += 1
            return
        try:
            obj = _build(case["cls"], dtype, case.get("how", "positional"))
            raised = None
        except ValueError:
            obj, raised = None, "ValueError"
        except Exception as exc:  # noqa: BLE001
            obj, raised = None, type(exc).__name__
        res.case(("ctor", case["cls"], case["type"], case.get("round", 0), case.get("how")))
        res.outcome((case["cls"], case["type"], raised))
        if want_ok and raised:
            res.violation("class-refuses-own-type", case, f"{case['cls']}({case['type']}) raised {raised}", "accepted", raised)
        elif want_ok and (obj.device_type is not dtype or not isinstance(obj, getattr(d, case["cls"]))):
            res.violation("class-mangles-type", case, f"{case['cls']}({case['type']}) holds {obj.device_type}", case["type"], repr(obj.device_type))
        elif not want_ok and raised != "ValueError":
            res.violation("class-accepts-foreign-type", case, f"{case['cls']}({case['type']}) built ({case.get('how', 'positional')}) in round {case.get('round', 0)} -> {raised or 'accepted'}, expected ValueError", "ValueError", raised or "accepted")
    elif k == "type":
        res.case(("type", case["type"], case.get("round", 0)))
        dtype = getattr(d.DeviceType, case["type"], None)
        if dtype is None:
            res.violation("type-missing", case, f"DeviceType.{case['type']} missing", case["type"], None)
            return
        exp_pt, exp_cat = EXPECT_TYPES[case["type"]]
        obs = (dtype.protocol_type, getattr(dtype.category, "name", None))
        res.outcome((case["type"], obs, dtype.hex_rep))
        if obs != (exp_pt, exp_cat):
            res.violation("type-table-row", case, f"DeviceType.{case['type']} is (protocol {obs[0]}, {obs[1]}), expected ({exp_pt}, {exp_cat})", [exp_pt, exp_cat], list(obs))
        hx = dtype.hex_rep
        okhex = isinstance(hx, str) and len(hx) == 4 and all(c in "0123456789abcdef" for c in hx)
        if not okhex:
            res.violation("model-code-not-two-bytes", case, f"DeviceType.{case['type']}.hex_rep = {hx!r}", "4 lowercase hex digits", hx)
        same = [t.name for t in d.DeviceType if t.hex_rep == hx]
        if len(same) != 1:
            res.violation("model-code-not-unique", case, f"model code {hx} shared by {same}", [case["type"]], same)
        if not isinstance(dtype.value, str) or not dtype.value:
            res.violation("type-has-no-name", case, f"DeviceType.{case['type']}.value = {dtype.value!r}", "non-empty str", repr(dtype.value))
        # ports reachable from this type through its category
        udp = bridge.SWITCHER_DEVICE_TO_UDP_PORT.get(dtype.category)
        tcp = api.SWITCHER_DEVICE_TO_TCP_PORT.get(dtype.category)
        if (udp, tcp) != PORTS[exp_pt]:
            res.violation("type-ports", case, f"{case['type']}: category {obs[1]} maps to UDP {udp} / TCP {tcp}, protocol type {exp_pt} needs {PORTS[exp_pt]}", list(PORTS[exp_pt]), [udp, tcp])
    elif k == "category":
        res.case(("category", case["cat"], case.get("round", 0)))
        cat = getattr(d.DeviceCategory, case["cat"], None)
        if cat is None:
            res.violation("category-missing", case, f"DeviceCategory.{case['cat']} missing", case["cat"], None)
            return
        udp = bridge.SWITCHER_DEVICE_TO_UDP_PORT.get(cat)
        tcp = api.SWITCHER_DEVICE_TO_TCP_PORT.get(cat)
        res.outcome((case["cat"], udp, tcp))
        pts = {t.protocol_type for t in d.DeviceType if t.category is cat}
        if len(pts) != 1:
            res.violation("category-mixed-protocols", case, f"category {case['cat']} has protocol types {sorted(pts)}", "exactly one", sorted(pts))
            return
        exp = PORTS.get(next(iter(pts)))
        if (udp, tcp) != exp:
            res.violation("category-ports", case, f"category {case['cat']} -> UDP {udp} / TCP {tcp}, expected {exp}", list(exp) if exp else None, [udp, tcp])
    elif k == "api":
        # observed, not read from a private attribute: which address does connect() ask the event loop for?
        import socket

        from mc.world import new_loop, task_outcome

        res.case(("api", case["cls"]))
        cls = getattr(api, case["cls"])
        inst = cls("192.168.9.9", "aabbcc", "18")
        loop = new_loop()
        try:
            out = task_outcome(loop.run_task(inst.connect()))
            asked = loop.connect_log[-1] if loop.connect_log else None
            if out[0] == "ok":
                loop.run_task(inst.disconnect())
        finally:
            loop.finish()
        res.outcome((case["cls"], asked))
        exp = ("192.168.9.9", 9957 if case["cls"] == "SwitcherType1Api" else 10000, socket.AF_INET)
        if asked != exp:
            res.violation("api-port", case, f"{case['cls']} connects to {asked}, expected {exp}", list(exp), asked)
    elif k == "totals":
        res.case(("totals",))
        names = sorted(t.name for t in d.DeviceType)
        cats = sorted(c.name for c in d.DeviceCategory)
        res.outcome((tuple(names), tuple(cats)))
        if set(EXPECT_TYPES) - set(names):
            res.violation("type-missing", case, f"device types missing: {sorted(set(EXPECT_TYPES) - set(names))}", sorted(EXPECT_TYPES), names)
        for c in cats:
            if c not in CLASSES.values():
                continue
        for table, nm in ((bridge.SWITCHER_DEVICE_TO_UDP_PORT, "udp"), (api.SWITCHER_DEVICE_TO_TCP_PORT, "tcp")):
            missing = [c.name for c in d.DeviceCategory if c not in table]
            if missing:
                res.violation(f"{nm}-table-incomplete", case, f"{nm} port table lacks {missing}", cats, missing)


def _cases():
    # every pair three times, the later passes in other orders: a verdict must not depend on what was tried before
    pairs = [(cls, t) for cls in CLASSES for t in EXPECT_TYPES]
    for rnd, order in enumerate((pairs, list(reversed(pairs)), sorted(pairs, key=lambda p: (p[1], p[0])), pairs)):
        if rnd == 3:
            yield {"kind": "disturb"}
            for t in EXPECT_TYPES:
                yield {"kind": "type", "type": t, "round": 3}
            for c in sorted(set(CLASSES.values())):
                yield {"kind": "category", "cat": c, "round": 3}
        for cls, t in order:
            for how in HOWS:
                yield {"kind": "ctor", "cls": cls, "type": t, "round": rnd, "how": how}
    for t in EXPECT_TYPES:
        yield {"kind": "type", "type": t}
    for c in sorted(set(CLASSES.values())):
        yield {"kind": "category", "cat": c}
    for a in ("SwitcherType1Api", "SwitcherType2Api"):
        yield {"kind": "api", "cls": a}
    yield {"kind": "totals"}


def run_job(job):
    if job.get("part") == "optimized":
        r0 = Res()
        core_run_optimized(ID, job.get("tier", "quick"), r0)
        return r0
    from aioswitcher import device as d

    res = Res()
    for case in _cases():
        check_case(case, res)
    # types the library defines beyond the nine named here are enumerated too (consistency only)
    for t in d.DeviceType:
        if t.name not in EXPECT_TYPES:
            res.counters["extra_types"] += 1
            for cls in CLASSES:
                want_ok = t.category.name == CLASSES[cls]
                try:
                    _build(cls, t)
                    ok = True
                except ValueError:
                    ok = False
                res.case(("ctor", cls, t.name))
                if ok != want_ok:
                    res.violation("class-category-guard-extra-type", {"kind": "extra", "cls": cls, "type": t.name}, f"{cls}({t.name}) accepted={ok}", want_ok, ok)
    res.sample({"kind": "ctor", "cls": "SwitcherShutter", "type": "BREEZE", "expected": "ValueError"})
    res.sample({"kind": "type", "type": "RUNNER_MINI", "expected": [2, "SHUTTER", "UDP 20003", "TCP 10000"]})
    return res


def replay(case):
    if isinstance(case, dict) and case.get("part") == "optimized":
        r0 = Res()
        core_run_optimized(ID, case.get("tier", "quick"), r0)
        return r0.violations
    res = Res()
    if case.get("kind") == "extra" or case.get("round"):
        # a verdict that depends on earlier attempts needs the whole sequence of attempts
        return [v for v in run_job({}).violations if v["case"] == case] or run_job({}).violations
    check_case(case, res)
    return res.violations


def finalize(merged, tier, seed):
    return {"exhaustive": True, "space": "9 types x 4 classes + 9 type rows + 4 categories x 2 tables + 2 API classes"}
