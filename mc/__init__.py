"""Bounded exhaustive exploration (model checking) machinery for aioswitcher."""
import os
import sys

VERIF_DIR = os.path.dirname(os.path.dirname(os.path.abspath(__file__)))
REPO = os.environ.get("VERIF_REPO", "/repo")
GUARD = "AIOSWITCHER_VERIF"


def bind_repo():
    """Make `import aioswitcher` resolve to the working tree under $VERIF_REPO."""
    src = os.path.join(REPO, "src")
    if not os.path.isdir(os.path.join(src, "aioswitcher")):
        raise SystemExit(f"no aioswitcher sources under {src}")
    if sys.path[0] != src:
        sys.path.insert(0, src)
    os.environ.setdefault(GUARD, "1")
    import aioswitcher  # noqa: F401
    import logging

    logging.getLogger("aioswitcher").addHandler(logging.NullHandler())
    logging.getLogger("asyncio").addHandler(logging.NullHandler())  # e.g. "socket.send() raised exception" on a dropped connection

    got = os.path.dirname(os.path.abspath(aioswitcher.__file__))
    if got != os.path.join(os.path.abspath(src), "aioswitcher"):
        raise SystemExit(f"aioswitcher imported from {got}, expected {src}")
