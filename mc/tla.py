"""Run TLC on a lifecycle model and hand back its complete reachable state graph (states, labelled edges).

The graph is what `tlc -dump dot,actionlabels` writes; every edge is afterwards replayed against the real
implementation by the property module (model checking of the model + conformance of the implementation
on all of the model's transitions)."""
from __future__ import annotations

import os
import re
import shutil
import subprocess
import tempfile

from . import VERIF_DIR
from .core import HarnessError

TLA_DIR = os.path.join(VERIF_DIR, "tla")


def available():
    return shutil.which("tlc") is not None


def _parse_value(txt):
    txt = txt.strip()
    if txt in ("TRUE", "FALSE"):
        return txt == "TRUE"
    if txt.startswith("{"):
        inner = txt[1:-1].strip()
        return frozenset(int(x) for x in inner.split(",")) if inner else frozenset()
    try:
        return int(txt)
    except ValueError:
        return txt


def state_graph(module, constants=None):
    """-> (states: {id: {var: value}}, edges: [(src, action, arg, dst)], init id, tlc summary line)"""
    tmp = tempfile.mkdtemp(prefix="aiosw-tlc-", dir="/dev/shm" if os.path.isdir("/dev/shm") else None)
    try:
        shutil.copy(os.path.join(TLA_DIR, module + ".tla"), tmp)
        cfg = open(os.path.join(TLA_DIR, module + ".cfg")).read()
        for k, v in (constants or {}).items():
            cfg = re.sub(rf"CONSTANT {k} = .*", f"CONSTANT {k} = {v}", cfg)
        with open(os.path.join(tmp, module + ".cfg"), "w") as fh:
            fh.write(cfg)
        r = subprocess.run(
            ["tlc", "-workers", "1", "-noGenerateSpecTE", "-metadir", os.path.join(tmp, "meta"), "-dump", "dot,actionlabels", os.path.join(tmp, "out"), module],
            cwd=tmp, capture_output=True, text=True, timeout=300,
            # TLC's own scratch directory (java.io.tmpdir) goes into the run's directory too, which is removed below
            env=dict(os.environ, JAVA_TOOL_OPTIONS=(os.environ.get("JAVA_TOOL_OPTIONS", "") + " -Djava.io.tmpdir=" + tmp).strip()))
        out = r.stdout + r.stderr
        if "No error has been found" not in out:
            raise HarnessError(f"TLC did not verify {module}: {out[-1500:]}")
        summary = next((l.strip() for l in out.splitlines() if "distinct states found" in l), "")
        dot = open(os.path.join(tmp, "out.dot")).read()
    finally:
        shutil.rmtree(tmp, ignore_errors=True)
    states, edges, init = {}, [], None
    for m in re.finditer(r'^(-?\d+) \[label="([^"]*)"(,style = filled)?', dot, re.M):
        sid, label = m.group(1), m.group(2)
        st = {}
        for part in label.split("\\n"):
            part = part.replace("/\\\\", "").strip()
            if " = " in part:
                k, v = part.split(" = ", 1)
                st[k.strip()] = _parse_value(v)
        states[sid] = st
        if m.group(3):
            init = sid
    for m in re.finditer(r'^(-?\d+) -> (-?\d+) \[label="([A-Za-z]+)(?:\((\d+)\))?"', dot, re.M):
        edges.append((m.group(1), m.group(3), None if m.group(4) is None else int(m.group(4)), m.group(2)))
    if init is None or not edges:
        raise HarnessError(f"could not parse TLC's state graph for {module}")
    return states, edges, init, summary


def shortest_paths(states, edges, init):
    """id -> list of (action, arg) reaching it from the initial state (breadth-first)."""
    from collections import deque

    out = {init: []}
    adj = {}
    for s, a, arg, t in edges:
        adj.setdefault(s, []).append((a, arg, t))
    q = deque([init])
    while q:
        s = q.popleft()
        for a, arg, t in adj.get(s, ()):
            if t not in out:
                out[t] = out[s] + [(a, arg)]
                q.append(t)
    return out
