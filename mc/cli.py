"""./check <Cxx> [--tier quick|thorough] [--replay file] [--workers N]"""
from __future__ import annotations

import argparse
import importlib
import json
import os
import sys

from . import VERIF_DIR, bind_repo
from . import core


def _confirm(mod, viol):
    """Re-execute a violation's case twice on fresh worlds; both must reproduce it."""
    sigs = []
    for _ in range(2):
        try:
            got = _replay_case(mod, core.unjson(viol["case"]))
        except core.HarnessError as exc:
            return False, f"harness error while replaying: {exc}"
        sigs.append(sorted({g["signature"] for g in got}))
    if sigs[0] != sigs[1]:
        return False, f"replays disagree: {sigs[0]} vs {sigs[1]}"
    if viol["signature"] not in sigs[0]:
        return False, f"replay did not reproduce {viol['signature']} (got {sigs[0]})"
    return True, ""


def _replay_case(mod, case):
    if isinstance(case, dict) and "__job__" in case:
        import logging

        logging.getLogger("aioswitcher").setLevel(logging.DEBUG if core.khash(core.jsonable(case["__job__"])) % 2 else logging.WARNING)
        try:
            r = mod.run_job(case["__job__"])
        except core.HarnessError:
            raise
        except BaseException as exc:  # noqa: BLE001
            return [
                {
                    "signature": f"job-exception:{type(exc).__name__}",
                    "case": case,
                    "message": f"{type(exc).__name__}: {exc}",
                }
            ]
        return list(r.violations)
    return list(mod.replay(case))


def _confirm_by_job(pid, viol):
    """Fallback when a single case does not reproduce on a fresh world: the violation may depend on state the
    implementation carried over from earlier executions of the same job (module-level caches and the like).
    The whole job is deterministic, so it is re-run twice, each time in a fresh process; both runs must show
    the same violation signature."""
    import subprocess
    import tempfile

    job = viol.get("job")
    if job is None:
        return False
    body = {"property": pid, "signature": viol["signature"], "case": {"__job__": core.jsonable(job)}}
    os.makedirs(core.REPLAY_DIR, exist_ok=True)
    with tempfile.NamedTemporaryFile("w", suffix=".json", delete=False, dir=core.REPLAY_DIR) as fh:
        json.dump(body, fh)
        tmp = fh.name
    try:
        for _ in range(2):
            r = subprocess.run([sys.executable, "-m", "mc.cli", pid, "--replay", tmp], capture_output=True, text=True, cwd=VERIF_DIR)
            if f"REPRODUCED signature={viol['signature']} " not in r.stdout:
                return False
        return True
    finally:
        os.unlink(tmp)


def _full_run_signatures(pid, tier, seed):
    """Signatures seen by a complete single-process run of the check in a fresh interpreter (deterministic job order)."""
    import subprocess
    import tempfile

    with tempfile.TemporaryDirectory() as tmp:
        env = dict(os.environ, VERIF_FULLRUN="1", VERIF_EVIDENCE_DIR=tmp, VERIF_REPLAY_DIR=tmp, VERIF_SEED=str(seed))
        r = subprocess.run([sys.executable, "-m", "mc.cli", pid, "--tier", tier, "--workers", "1"], capture_output=True, text=True, cwd=VERIF_DIR, env=env)
    return {l[len("SEEN signature="):].strip() for l in r.stdout.splitlines() if l.startswith("SEEN signature=")}


_FULL_RUNS = {}


def _confirm_by_full_run(pid, tier, seed, viol):
    """Last fallback: the violation may need state the implementation carried over from *other jobs* run earlier in the
    same worker process. A complete single-process run is deterministic; it is made twice, in fresh interpreters."""
    if os.environ.get("VERIF_FULLRUN"):
        return False
    # the two complete runs are made once per invocation and serve every signature that needs them
    key = (pid, tier, seed)
    runs = _FULL_RUNS.setdefault(key, [])
    for i in range(2):
        if len(runs) <= i:
            runs.append(_full_run_signatures(pid, tier, seed))
        if viol["signature"] not in runs[i]:
            return False
    return True


def main(argv=None):
    ap = argparse.ArgumentParser(prog="check")
    ap.add_argument("prop")
    ap.add_argument("--tier", default=os.environ.get("VERIF_TIER") or "quick", choices=["quick", "thorough"])
    ap.add_argument("--replay")
    ap.add_argument("--workers", type=int, default=int(os.environ.get("VERIF_WORKERS", "0")) or min(16, os.cpu_count() or 1))
    args = ap.parse_args(argv)
    pid = args.prop.upper()
    try:
        seed = int(os.environ.get("VERIF_SEED", "0") or 0)
    except ValueError:
        seed = 0
    os.chdir(VERIF_DIR)
    if VERIF_DIR not in sys.path:
        sys.path.insert(0, VERIF_DIR)
    bind_repo()
    mod = importlib.import_module(f"props.{pid.lower()}")

    if args.replay:
        with open(args.replay) as fh:
            body = json.load(fh)
        case = core.unjson(body["case"])
        if isinstance(case, dict) and "__full__" in case:
            sigs = _full_run_signatures(pid, case["__full__"]["tier"], case["__full__"].get("seed", seed))
            got = [{"signature": body["signature"], "message": "seen again by a complete single-process run"}] if body["signature"] in sigs else []
        else:
            got = _replay_case(mod, case)
        if got:
            for g in got:
                print(f"REPRODUCED signature={g['signature']} :: {g['message']}")
            print(f"VIOLATION property={pid} replay={args.replay}")
            return 1
        print(f"replay of {args.replay}: property held (not reproduced)")
        return 0

    t0 = core.now()
    if hasattr(mod, "selftest"):
        mod.selftest()
    jobs = mod.jobs(args.tier, seed)
    merged, job_excs, harness = core.run_jobs(mod, jobs, args.workers)
    if harness:
        for h in harness[:3]:
            core.log("HARNESS-ERROR", h)
        print(f"HARNESS-ERROR property={pid} ({len(harness)} job(s)); no verdict")
        return 2
    for job, msg, tb in job_excs:
        merged.violation(
            f"job-exception:{msg.split(':')[0]}",
            {"__job__": job},
            f"exploration job raised {msg}\n{tb[-1500:]}",
        )
    extra = {}
    if hasattr(mod, "finalize"):
        extra = mod.finalize(merged, args.tier, seed) or {}

    if os.environ.get("VERIF_FULLRUN"):
        # inner run of _confirm_by_full_run: only say what was seen
        for sig in sorted(merged.vcount):
            print(f"SEEN signature={sig}")
        return 0
    findings = core.load_findings()
    reported, known, unstable = [], [], []
    seen_sig = set()
    for v in merged.violations:
        if v["signature"] in seen_sig:
            continue
        seen_sig.add(v["signature"])
        ok, why = _confirm(mod, v)
        if not ok and _confirm_by_job(pid, v):
            v = dict(v, case={"__job__": core.jsonable(v["job"])},
                     message=v["message"] + "  [reproduces only after the earlier executions of its job: the implementation carries state between executions; replay re-runs the job]")
            ok = True
        if not ok and _confirm_by_full_run(pid, args.tier, seed, v):
            v = dict(v, case={"__full__": {"tier": args.tier, "seed": seed}},
                     message=v["message"] + "  [reproduces only in a complete run: the implementation carries state from one job to the next; replay re-runs the check single-process]")
            ok = True
        if not ok:
            unstable.append((v, why))
            continue
        f = core.match_finding(pid, v["signature"], findings)
        if f:
            known.append((v, f))
        else:
            reported.append(v)
        if len(reported) >= 8:
            break

    wall = core.now() - t0
    nviol_total = sum(merged.vcount.values())
    coverage = {
        "evaluations": merged.evals,
        "distinct_nontrivial": (len(merged.keys) + merged.kcount),
        "rule": mod.RULE,
        "samples": merged.samples[: core.MAX_SAMPLES],
        "distinct_outcomes": len(merged.outcomes),
        "jobs": len(jobs),
        "workers": args.workers,
        "counters": dict(sorted(merged.counters.items())),
        "violation_signatures": dict(sorted(merged.vcount.items())),
        "known_findings_seen": [f["signature"] for _, f in known],
    }
    if mod.LEVEL == "model_checking":
        coverage["states"] = len(merged.states)
        coverage["transitions"] = len(merged.transitions) + merged.tcount
        coverage["traces_validated_against_impl"] = merged.traces
    if merged.notes:
        coverage["notes"] = merged.notes
    coverage.update(extra)
    path = core.write_evidence(
        pid, args.tier, seed, mod.LEVEL, coverage, list(mod.ASSUMPTIONS), wall, nviol_total
    )

    for v, f in known:
        print(f"KNOWN-FINDING: property={pid} {f.get('what', v['signature'])}")
    rc = 0
    for v in reported:
        rp = core.write_replay(pid, args.tier, seed, v)
        print(f"  {v['signature']}: {v['message'][:600]}")
        print(f"VIOLATION property={pid} replay={rp}")
        rc = 1
    if unstable and rc == 0:
        for v, why in unstable[:5]:
            core.log(f"UNSTABLE {v['signature']}: {why} :: {v['message'][:300]}")
        print(f"HARNESS-NONDETERMINISM property={pid}: {len(unstable)} violation(s) did not replay identically; no verdict")
        rc = 2
    st = "HELD" if rc == 0 else ("VIOLATED" if rc == 1 else "NO-VERDICT")
    print(
        f"{st} property={pid} tier={args.tier} seed={seed} evaluations={merged.evals} "
        f"distinct_nontrivial={(len(merged.keys) + merged.kcount)} outcomes={len(merged.outcomes)} "
        + (f"states={len(merged.states)} transitions={len(merged.transitions) + merged.tcount} traces={merged.traces} " if mod.LEVEL == "model_checking" else "")
        + f"wall={wall:.1f}s evidence={os.path.relpath(path, VERIF_DIR)}"
    )
    return rc


if __name__ == "__main__":
    try:
        rc = main()
    except SystemExit:
        raise
    except BaseException:  # noqa: BLE001 - a crash of the driver is never a verdict
        import traceback

        traceback.print_exc()
        print("HARNESS-ERROR: the check driver crashed; no verdict")
        rc = 3
    sys.exit(rc)
