"""The controlled world the implementation runs in.

* VLoop      - a real asyncio selector event loop that is never `run()`: the driver executes one
               iteration at a time, owns the clock (`time()` is a virtual counter), intercepts
               `create_connection` (socketpair to a scripted FakeConn, or refusal) and records
               every datagram endpoint.  The selector is wrapped so an explorer can decide which
               ready file descriptors an iteration services.
* FakeConn   - the device end of one TCP connection (non-blocking socket read/written by the
               driver between loop iterations); logs chunks received and end-of-stream.
* PortBlock  - a block of UDP ports private to this process (flock), outside the ephemeral range.
* Capture    - warnings / logging / loop-exception recorder.
* clock      - time_machine wrapper (pinned wall clock, explicit moves) and zone switching.
"""
from __future__ import annotations

import asyncio
import errno
import fcntl
import gc
import logging
import os
import selectors
import socket
import sys
import time
import warnings
from asyncio import events

from .core import HarnessError

STEP_BUDGET = 400


# ---------------------------------------------------------------------------
# selector under explorer control


class CtlSelector(selectors.BaseSelector):
    """Wraps the real selector; `chooser(events) -> subset` decides what an iteration sees."""

    def __init__(self):
        self._real = selectors.DefaultSelector()
        self.chooser = None

    def register(self, fileobj, events, data=None):
        return self._real.register(fileobj, events, data)

    def unregister(self, fileobj):
        return self._real.unregister(fileobj)

    def modify(self, fileobj, events, data=None):
        return self._real.modify(fileobj, events, data)

    def select(self, timeout=None):
        evs = self._real.select(0)
        evs.sort(key=lambda kv: kv[0].fd)
        if self.chooser is not None and evs:
            evs = self.chooser(evs)
        return evs

    def peek(self):
        evs = self._real.select(0)
        evs.sort(key=lambda kv: kv[0].fd)
        return evs

    def close(self):
        self._real.close()

    def get_key(self, fileobj):
        return self._real.get_key(fileobj)

    def get_map(self):
        return self._real.get_map()


class FakeConn:
    """Device side of one client connection."""

    def __init__(self, sock, index, addr):
        self.sock = sock
        self.index = index
        self.addr = addr  # (host, port, family) the client asked for
        self.rx = []  # chunks received, in order
        self.handled = 0  # chunks already answered by the driver
        self.eof = False
        self.closed = False
        self.writes = []  # arguments of transport.write on the client side
        self.sent = []  # replies sent by the device
        self.write_times = []  # wall clock (as the client sees it) at each write

    def poll(self):
        """Read whatever the client has written so far; returns number of new chunks."""
        n = 0
        if self.closed or self.eof:
            return 0
        while True:
            try:
                data = self.sock.recv(1 << 20)
            except BlockingIOError:
                break
            except (ConnectionResetError, OSError):
                self.eof = True
                break
            if data == b"":
                self.eof = True
                break
            self.rx.append(data)
            n += 1
        return n

    def send(self, data: bytes):
        self.sent.append(data)
        if data:
            try:
                self.sock.sendall(data)
            except (BrokenPipeError, ConnectionResetError):
                pass

    def send_eof(self):
        """The device closes its sending direction: the client reads b''."""
        self.sent.append(None)
        try:
            self.sock.shutdown(socket.SHUT_WR)
        except OSError:
            pass

    def drop(self):
        """The device drops the connection entirely."""
        if not self.closed:
            self.closed = True
            try:
                self.sock.close()
            except OSError:
                pass

    def wire(self) -> bytes:
        return b"".join(self.rx)


class VLoop(asyncio.SelectorEventLoop):
    def __init__(self):
        self.ctl = CtlSelector()
        super().__init__(selector=self.ctl)
        self.vtime = 1000.0
        self.conns = []
        self.connect_log = []
        self.refuse = lambda n, host, port: False  # decided by the scenario
        self.udp = {}  # port -> transport
        self.udp_protocols = {}  # port -> protocol object asyncio delivers that port's datagrams to
        self.udp_log = []
        self.exc_log = []
        self.set_exception_handler(self._on_exc)
        self.steps = 0

    def _on_exc(self, loop, ctx):
        e = ctx.get("exception")
        self.exc_log.append((type(e).__name__ if e else None, str(ctx.get("message"))))

    def time(self):
        return self.vtime

    async def create_connection(self, protocol_factory, host=None, port=None, **kw):
        n = len(self.connect_log)
        self.connect_log.append((host, port, kw.get("family")))
        if kw.get("sock") is not None:
            return await super().create_connection(protocol_factory, host, port, **kw)
        if self.refuse(n, host, port):
            raise ConnectionRefusedError(errno.ECONNREFUSED, f"Connect call failed ({host!r}, {port})")
        a, b = socket.socketpair()
        b.setblocking(False)
        conn = FakeConn(b, len(self.conns), (host, port, kw.get("family")))
        self.conns.append(conn)
        kw2 = {k: v for k, v in kw.items() if k in ("ssl", "server_hostname")}
        transport, protocol = await super().create_connection(protocol_factory, sock=a, **kw2)
        real_write = transport.write

        def logged_write(data, _w=real_write, _c=conn):
            _c.writes.append(bytes(data))
            _c.write_times.append(time.time())
            return _w(data)

        transport.write = logged_write
        return transport, protocol

    async def create_datagram_endpoint(self, protocol_factory, local_addr=None, remote_addr=None, **kw):
        self.udp_log.append((local_addr, kw.get("family")))
        transport, protocol = await super().create_datagram_endpoint(protocol_factory, local_addr, remote_addr, **kw)
        if local_addr:
            self.udp[local_addr[1]] = transport
            self.udp_protocols[local_addr[1]] = protocol
        return transport, protocol

    # -- stepping ----------------------------------------------------------
    def step(self):
        self.steps += 1
        self.vtime += 0.001
        self.stop()
        self.run_forever()

    def advance(self, seconds):
        """Let `seconds` of virtual time pass (timers that become due fire during the following steps)."""
        self.vtime += float(seconds)
        for _ in range(3):
            self.step()

    def idle(self):
        if self._scheduled and self._scheduled[0]._when <= self.vtime:
            return False  # a timer is due
        return not self._ready and not self.ctl.peek()

    def settle(self, budget=STEP_BUDGET):
        """Run iterations until nothing is runnable and no fd is ready."""
        for _ in range(budget):
            if self.idle():
                return True
            self.step()
        return self.idle()

    def run_task(self, coro, responder=None, budget=STEP_BUDGET):
        """Run `coro` as a task to completion, answering device reads through `responder`.

        responder(conn, chunk) -> bytes to send | None for end-of-stream | False to stay silent.
        Returns the finished task, or raises HangError if it neither finishes nor can progress.
        """
        task = self.create_task(coro)
        idle_jumps = 0
        for _ in range(budget):
            self.settle()
            if task.done():
                self.pump_devices(None)
                return task
            if not self.pump_devices(responder):
                # nothing to answer and nothing runnable: if the code under test is waiting on a timer (an internal
                # timeout, a grace period), virtual time passes until the earliest one is due
                if self._scheduled and idle_jumps < 50:
                    idle_jumps += 1
                    self.vtime = max(self.vtime, min(h._when for h in self._scheduled if not h._cancelled) if any(not h._cancelled for h in self._scheduled) else self.vtime)
                    if any(not h._cancelled for h in self._scheduled):
                        self.step()
                        continue
                break
        self.settle()
        if task.done():
            return task
        task.cancel()
        self.settle()
        raise Hang(task)

    def pump_devices(self, responder):
        """Let every device read; answer each new chunk. Returns True if anything was answered."""
        progressed = False
        for conn in self.conns:
            conn.poll()
            while conn.handled < len(conn.rx):
                chunk = conn.rx[conn.handled]
                conn.handled += 1
                if responder is None:
                    continue
                action = responder(conn, chunk)
                if isinstance(action, tuple) and action and action[0] == "delay":
                    # the device takes its time: virtual seconds pass before the reply is sent
                    self.advance(action[1])
                    action = action[2]
                if action is None:
                    conn.send_eof()
                    progressed = True
                elif action is not False:
                    conn.send(action)
                    progressed = True
        return progressed

    def finish(self):
        """Tear the world down (sockets, loop)."""
        if self.is_closed():
            return
        try:
            for t in list(self.udp.values()):
                try:
                    t.close()
                except Exception:  # noqa: BLE001
                    pass
            self.settle()
            for c in self.conns:
                c.drop()
            # cancel whatever is left
            for t in asyncio.all_tasks(self):
                t.cancel()
            self.settle()
        finally:
            self.close()


class Hang(Exception):
    def __init__(self, task):
        super().__init__("operation neither finished nor can make progress")
        self.task = task


def new_loop():
    loop = VLoop()
    return loop


def task_outcome(task):
    """('ok', result) or ('exc', exception)."""
    if task.cancelled():
        return ("cancelled", None)
    e = task.exception()
    if e is not None:
        return ("exc", e)
    return ("ok", task.result())


# ---------------------------------------------------------------------------
# UDP port blocks

PORT_LOCK_DIR = "/dev/shm/aioswitcher-verif-ports" if os.path.isdir("/dev/shm") else "/tmp/aioswitcher-verif-ports"
_block = None


class PortBlock:
    SIZE = 8

    def __init__(self):
        os.makedirs(PORT_LOCK_DIR, exist_ok=True)
        self.base = None
        start = 20100 + (os.getpid() * 37 % 1200) * self.SIZE
        for k in range(1200):
            base = 20100 + ((start - 20100) // self.SIZE + k) % 1200 * self.SIZE
            fd = os.open(os.path.join(PORT_LOCK_DIR, f"{base}.lock"), os.O_CREAT | os.O_RDWR, 0o644)
            try:
                fcntl.flock(fd, fcntl.LOCK_EX | fcntl.LOCK_NB)
            except OSError:
                os.close(fd)
                continue
            if all(self._free(base + i) for i in range(self.SIZE)):
                self.base, self.fd = base, fd
                break
            fcntl.flock(fd, fcntl.LOCK_UN)
            os.close(fd)
        if self.base is None:
            raise HarnessError("no free UDP port block")
        self.ports = [self.base + i for i in range(self.SIZE)]

    @staticmethod
    def _free(port):
        s = socket.socket(socket.AF_INET, socket.SOCK_DGRAM)
        try:
            s.bind(("0.0.0.0", port))
            return True
        except OSError:
            return False
        finally:
            s.close()


def port_block() -> PortBlock:
    global _block
    if _block is None or _block.pid != os.getpid():
        _block = PortBlock()
        _block.pid = os.getpid()
    return _block


def can_bind(port) -> bool:
    return PortBlock._free(port)


_sender = None


def udp_send(port, data: bytes):
    global _sender
    if _sender is None or _sender[0] != os.getpid():
        s = socket.socket(socket.AF_INET, socket.SOCK_DGRAM)
        s.bind(("127.0.0.1", 0))
        _sender = (os.getpid(), s)
        import atexit

        atexit.register(s.close)
    _sender[1].sendto(data, ("127.0.0.1", port))


# ---------------------------------------------------------------------------
# capture of warnings, log records, loop exceptions


class _ListHandler(logging.Handler):
    def __init__(self, sink):
        super().__init__(level=logging.WARNING)
        self.sink = sink

    def emit(self, record):
        try:
            msg = record.getMessage()
        except Exception:  # noqa: BLE001
            msg = str(record.msg)
        self.sink.append((record.name, record.levelname, msg))


class Capture:
    """with Capture() as cap: ...  -> cap.warnings [(category, text)], cap.logs [(logger, level, text)]."""

    def __enter__(self):
        self.logs = []
        self._h = _ListHandler(self.logs)
        self._root = logging.getLogger()
        self._root.addHandler(self._h)
        self._cw = warnings.catch_warnings(record=True)
        self._wlist = self._cw.__enter__()
        warnings.simplefilter("always")
        return self

    @property
    def warnings(self):
        return [(w.category.__name__, str(w.message)) for w in self._wlist]

    def clear(self):
        del self._wlist[:]
        del self.logs[:]

    def __exit__(self, *a):
        self._cw.__exit__(*a)
        self._root.removeHandler(self._h)
        return False


def collect_garbage():
    gc.collect()


# ---------------------------------------------------------------------------
# wall clock and zone


class Clock:
    """Pinned wall clock (time.time, localtime, strftime, datetime.now/utcnow) moved explicitly."""

    def __init__(self, epoch: float):
        import time_machine

        self._tm = time_machine.travel(float(epoch), tick=False)
        self._t = None
        self.now = float(epoch)

    def __enter__(self):
        self._t = self._tm.start()
        return self

    def move_to(self, epoch: float):
        self.now = float(epoch)
        self._t.move_to(self.now)

    def shift(self, seconds: float):
        self.move_to(self.now + seconds)

    def __exit__(self, *a):
        self._tm.stop()
        return False


def set_zone(name: str):
    os.environ["TZ"] = name
    time.tzset()


CLOCK_READERS = {"time", "time_ns", "localtime", "gmtime", "strftime", "ctime", "asctime", "today", "now", "utcnow"}


class SteppingClock(Clock):
    """A pinned clock that moves by `delta` seconds just before the k-th clock read the library makes.

    A "read" is a call, from a frame of the aioswitcher package, of one of the C functions that can consult the wall
    clock (time.time/localtime/strftime/..., date.today, datetime.now/utcnow).  Calls that were handed an explicit time
    are counted too - a jump before one of them is the same execution as a jump before the next real read, so the
    enumeration `jump_at in range(reads + 1)` covers every placement of the jump between two reads.
    `jump_at=None` never moves (used to count the reads of one call)."""

    def __init__(self, epoch, jump_at=None, delta=1.0):
        super().__init__(epoch)
        self.jump_at = jump_at
        self.delta = delta
        self.reads = 0
        self.jumped = False
        self._old = None

    def _hook(self, frame, event, arg):
        if event != "c_call" or getattr(arg, "__name__", None) not in CLOCK_READERS:
            return
        if os.sep + "aioswitcher" + os.sep not in frame.f_code.co_filename:
            return
        if self.jump_at is not None and self.reads == self.jump_at and not self.jumped:
            self.jumped = True
            self.shift(self.delta)
        self.reads += 1

    def arm(self, jump_at):
        """Count afresh; the clock moves before read number `jump_at` of what follows."""
        self.reads = 0
        self.jumped = False
        self.jump_at = jump_at

    def __enter__(self):
        super().__enter__()
        self._old = sys.getprofile()
        sys.setprofile(self._hook)
        return self

    def __exit__(self, *a):
        sys.setprofile(self._old)
        return super().__exit__(*a)
