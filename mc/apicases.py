"""Cases for the frame properties (C01, C02): generators, executor, oracles.

A case is a JSON-able dict:
    {"kind": 1|2, "op": <OPS name>, "args": {...}, "id": "aabbcc", "key": "18",
     "session": "<8 hex>"|None, "now": <epoch float>, "zone": "UTC"}
It is executed on a (cached or fresh) connected API object against the standard device.
"""
from __future__ import annotations

import datetime
import struct
import zoneinfo

from ref import frames as F
from ref import irset as IR
from ref import replies as RP

from .apiworld import OPS, ApiWorld, expected_shape
from .world import Clock, set_zone

BASE_NOW = 1_700_000_000.25  # 2023-11-14 22:13:20 UTC


def seeded_base(seed):
    """Background constants picked by VERIF_SEED (the enumerations themselves never depend on it)."""
    ids = ["aabbcc", "a123bc", "3c4d5e", "0102ff", "f0e1d2", "00ff10"]
    keys = ["18", "00", "ff", "a5", "07", "c3"]
    return {
        "id": ids[seed % len(ids)],
        "key": keys[(seed // 2) % len(keys)],
        "now": BASE_NOW + 86400.0 * (seed % 11) + 3600.0 * (seed % 7),
    }


# ---------------------------------------------------------------------------
# argument domains (C02's quantifier; C01 runs them too)

CH = {1: "a", 2: "ש", 3: "€", 4: "\U0001F600"}  # ASCII, Hebrew shin, euro sign, emoji
CH2ALT = "é"


def name_domain(tier):
    """Names of 0..40 characters / bytes over 1-4 byte code points."""
    out = [""]
    # every composition of byte widths up to 8 bytes
    def comp(prefix, left):
        if prefix:
            out.append("".join(CH[w] for w in prefix))
        for w in (1, 2, 3, 4):
            if w <= left:
                comp(prefix + [w], left - w)
    comp([], 8 if tier == "thorough" else 6)
    for L in range(1, 41):
        out.append("a" * L)
        out.append(("Boiler " * 6)[:L])
        for w in (2, 3, 4):
            k = L // w
            if k:
                out.append(CH[w] * k)  # homogeneous, k*w bytes <= L
                out.append("a" * (L - k * w) + CH[w] * k)  # exactly L bytes
            cs = range(1, k + 1) if tier == "thorough" else sorted({1, 2, k // 2, k - 1, k} - {0})
            for c in cs:
                if c <= k:
                    out.append("a" * (L - c * w) + CH[w] * c)  # ASCII prefix + multibyte suffix, L bytes
                    if c < k and tier == "thorough":
                        out.append(CH[w] * c + "a" * (L - c * w))
    out += ["Boiler 100%", "50% off", "%s%s", "%(name)s", "{}{}", "{0!r}", "a\\x00b", "${HOME}", "cafe\u0301", "e\u0301" * 10, "e\u0301" * 11, "a" * 29 + "e\u0301", "a" * 30 + "e\u0301", "\ufb01x", "\u212bngstrom", "\ufb2a\u05dc\u05d5\u05dd",
            "\u1e9b\u0323", "\u0041\u030a", "\uff21\uff22", "\u2460\u2461", "Boiler\u00a0room", "x\u200by",
            CH2ALT * 16, CH2ALT * 17, "caf" + CH2ALT, "a" + CH[2], CH[2] + "a", "ab", "a", CH[2], CH[4], " " * 2, "a\x00b", "x" * 33, "x" * 32]
    seen, res = set(), []
    for n in out:
        if n not in seen:
            seen.add(n)
            res.append(n)
    return res


def minutes_domain(tier):
    out = set(range(0, 201))
    for p in range(0, 33):
        for d in (-1, 0, 1):
            out.add((1 << p) + d)
    lim = (1 << 32) // 60
    out.update(range(lim - 3, lim + 4))
    out.update({(1 << 32) - 1, (1 << 32), (1 << 32) + 1, 1 << 40, 71582788, 71582789})
    if tier == "thorough":
        out.update(range(201, 1441))
        out.update(range(0, 71582788, 1048573))
    return sorted(m for m in out if m >= 0)


def timedelta_domain(tier):
    """(seconds, micros) pairs."""
    out = set()
    for s in range(59 * 60, 61 * 60 + 1):
        out.add((s, 0))
    for s in range(23 * 3600 + 58 * 60, 24 * 3600 + 61):
        out.add((s, 0))
    for m in range(60, 24 * 60):
        out.add((m * 60, 0))
        if tier == "thorough":
            out.add((m * 60 + 59, 0))
            out.add((m * 60 - 1, 999999))
    for s in (3600, 86340, 86400, 3540):
        out.update({(s, 1), (s - 1, 999999), (s, 999999)})
    out.update({(0, 0), (1, 0), (60, 0), (1800, 0), (90000, 0), (172800, 0), (86400 * 30, 0)})
    return sorted(out)


def clock_strings_bad():
    return ["", ":", "12", "1200", "12:", ":30", "24:00", "23:60", "12:60", "99:99", "ab:cd", "12:3a", "1x:30", "-1:30",
            "12.30", "12-30", "12:30pm", " ", "noon", "25:00", "12:-5", "1e1:00"]


def days_domain():
    from itertools import combinations

    out = [[]]
    for r in range(1, 8):
        out.extend(list(c) for c in combinations(range(7), r))
    return out


GRID_MIN = [0, 1, 59, 60, 61, 599, 600, 719, 720, 721, 1379, 1380, 1438, 1439]


def hm(m):
    return "%02d:%02d" % divmod(m, 60)


def arg_cases(tier):
    """(kind, op, args) triples covering C02's argument quantifier."""
    out = []
    for m in minutes_domain(tier):
        out.append((1, "control_on", {"minutes": m}))
    for m in (0, 1, 30, 90, 1 << 20, 71582788, 71582789, 1 << 32):
        out.append((1, "control_off", {"minutes": m}))
    out.append((1, "control_off", {}))
    for s, us in timedelta_domain(tier):
        out.append((1, "set_auto_shutdown", {"seconds": s, "micros": us}))
    for n in name_domain(tier):
        out.append((1, "set_device_name", {"name": n}))
    for slot in range(8):
        out.append((1, "delete_schedule", {"slot": slot}))
    out.append((1, "get_schedules", {}))
    out.append((1, "get_state", {}))
    dd = days_domain()
    # all 128 day sets x (all starts with one end, all ends with one start) on a stride, corner grid squared for every set
    stride = 1 if tier == "thorough" else 7
    for di, days in enumerate(dd):
        for s in GRID_MIN:
            for e in (GRID_MIN if (tier == "thorough" or di % 8 == 1) else (0, 720, 1439)):
                out.append((1, "create_schedule", {"start": hm(s), "end": hm(e), "days": days}))
    for m in range(0, 1440, stride):
        for days in ([], [0], [6], [0, 1, 2, 3, 4, 5, 6], [1, 3, 5]):
            out.append((1, "create_schedule", {"start": hm(m), "end": "12:34", "days": days}))
            out.append((1, "create_schedule", {"start": "05:07", "end": hm(m), "days": days}))
    if tier == "thorough":
        for di, days in enumerate(dd):
            for m in range(di % 16, 1440, 16):
                out.append((1, "create_schedule", {"start": hm(m), "end": hm((m * 7 + 11) % 1440), "days": days}))
    for form in ("list", "tuple"):
        for days in ([0], [0, 1], [6, 0], [2, 2], [0, 1, 0], [3, 4, 5, 3], [6, 6], [0, 1, 2, 3, 4, 5, 6], [0, 1, 2, 3, 4, 5, 6, 0]):
            out.append((1, "create_schedule", {"start": "13:00", "end": "14:00", "days": days, "days_form": form}))
    # a day set is a day set, mutable or not (the empty one included)
    for days in ([], [0], [6], [2, 4], [0, 1, 2, 3, 4, 5, 6]):
        out.append((1, "create_schedule", {"start": "13:00", "end": "14:00", "days": days, "days_form": "frozenset"}))
    for bad in clock_strings_bad():
        out.append((1, "create_schedule", {"start": bad, "end": "14:00", "days": [0]}))
        out.append((1, "create_schedule", {"start": "13:00", "end": bad, "days": []}))
    for p in range(0, 101):
        out.append((2, "set_position", {"position": p}))
    out.append((2, "stop", {}))
    out.append((2, "get_shutter_state", {}))
    # the same operations with their arguments passed by name
    kw = [(1, "control_on", {"minutes": 90}), (1, "control_on", {"minutes": 0}), (1, "control_off", {"minutes": 0}), (1, "set_auto_shutdown", {"seconds": 5400}),
          (1, "set_auto_shutdown", {"seconds": 3599}), (1, "set_device_name", {"name": "Boiler"}), (1, "set_device_name", {"name": "x"}), (1, "delete_schedule", {"slot": 6}),
          (1, "create_schedule", {"start": "06:30", "end": "07:15", "days": [0, 5]}), (1, "create_schedule", {"start": "06:30", "end": "07:15", "days": []}),
          (2, "set_position", {"position": 64}), (2, "set_position", {"position": 0})]
    for kind, op, args in kw:
        out.append((kind, op, dict(args, by_keyword=True)))
    return out


# ---------------------------------------------------------------------------
# reference: what must happen for (op, args)


def local_epoch(now, zone, hhmm):
    """Epoch second(s) of today's local HH:MM in `zone` (set; empty if that time does not exist today)."""
    z = zoneinfo.ZoneInfo(zone)
    today = datetime.datetime.fromtimestamp(now, z).date()
    h, m = int(hhmm[:2]), int(hhmm[3:])
    res = set()
    for fold in (0, 1):
        dt = datetime.datetime(today.year, today.month, today.day, h, m, tzinfo=z, fold=fold)
        ts = int(dt.timestamp())
        back = datetime.datetime.fromtimestamp(ts, z)
        if (back.hour, back.minute, back.date()) == (h, m, today):
            res.add(ts)
    return res


def valid_clock(s):
    return len(s) == 5 and s[2] == ":" and s[:2].isdigit() and s[3:].isdigit() and int(s[:2]) < 24 and int(s[3:]) < 60


def expect(case):
    """-> ("frame", op_name, fields) | ("raise",) | ("unjudged",)

    For create_schedule `fields["start"]`/`["end"]` are sets of acceptable epoch values.
    """
    op, a = case["op"], dict(OPS[case["op"]][1])
    a.update(case.get("args") or {})
    did = bytes.fromhex(case["id"])
    if op == "get_state":
        return ("frame", "get_state1", {"device_id": did})
    if op in ("control_on", "control_timer", "control_off"):
        m = a.get("minutes", 0)
        if m * 60 >= 1 << 32:
            return ("raise",)
        return ("frame", "control", {"device_id": did, "on": op != "control_off", "timer_s": 60 * m if m > 0 else 0})
    if op == "set_auto_shutdown":
        total_us = a["seconds"] * 1_000_000 + a.get("micros", 0)
        mins = total_us // 60_000_000
        if mins < 60 or total_us >= 86400 * 1_000_000:
            return ("raise",)
        if total_us > 86340 * 1_000_000:
            return ("frame-or-raise", "auto_off", {"device_id": did, "seconds": 86340})
        return ("frame", "auto_off", {"device_id": did, "seconds": mins * 60})
    if op == "set_device_name":
        n = a["name"]
        nb = len(n.encode("utf-8"))
        if nb > 32 or nb < 2 and len(n) < 2:
            return ("raise",)
        if len(n) < 2:
            return ("unjudged",)
        return ("frame", "set_name", {"device_id": did, "name": n})
    if op == "get_schedules":
        return ("frame", "get_schedules", {"device_id": did})
    if op == "delete_schedule":
        return ("frame", "delete_schedule", {"device_id": did, "slot": a["slot"]})
    if op == "create_schedule":
        days = a["days"]
        form = a.get("days_form", "set")
        if form not in ("set", "frozenset") and len(set(days)) != len(days):
            return ("raise",)
        if not valid_clock(a["start"]) or not valid_clock(a["end"]):
            return ("raise",)
        mask = 0
        for i in set(days):
            mask |= 1 << (i + 1)
        st = local_epoch(case["now"], case.get("zone", "UTC"), a["start"])
        en = local_epoch(case["now"], case.get("zone", "UTC"), a["end"])
        if not st or not en:
            return ("unjudged",)
        return ("frame", "create_schedule", {"device_id": did, "mask": mask, "start": st, "end": en})
    if op == "stop":
        return ("frame", "stop", {"device_id": did})
    if op == "set_position":
        if not 0 <= a["position"] <= 100:
            return ("unjudged",)
        return ("frame", "set_position", {"device_id": did, "position": a["position"]})
    if op in ("get_shutter_state", "get_breeze_state"):
        return ("frame", "get_state2", {"device_id": did})
    return ("unjudged",)


# ---------------------------------------------------------------------------
# executor


class Runner:
    """Executes cases; keeps one connected API object per (kind, id, key) and one pinned clock."""

    def __init__(self, fresh=False):
        self.fresh = fresh
        self.worlds = {}
        self.clock = Clock(BASE_NOW)
        self.clock.__enter__()
        self.zone = None

    def close(self):
        for w in self.worlds.values():
            try:
                w.disconnect()
            finally:
                w.__exit__(None, None, None)
        self.worlds.clear()
        self.clock.__exit__(None, None, None)

    def world(self, kind, did, key):
        k = (kind, did, key)
        w = self.worlds.get(k)
        if w is not None and getattr(w, "dirty", False):
            w.disconnect()
            w.__exit__(None, None, None)
            del self.worlds[k]
            w = None
        if w is None:
            if len(self.worlds) > 24:
                for old in list(self.worlds.values()):
                    old.disconnect()
                    old.__exit__(None, None, None)
                self.worlds.clear()
            w = ApiWorld(kind, did, key)
            out = w.connect()
            if out[0] != "ok":
                raise RuntimeError(f"connect failed: {out}")
            self.worlds[k] = w
        return w

    def run(self, case):
        zone = case.get("zone", "UTC")
        if zone != self.zone:
            set_zone(zone)
            self.zone = zone
        self.clock.move_to(case["now"])
        kind = case.get("kind") or OPS[case["op"]][0]
        w = self.world(kind, case["id"], case["key"])
        script = None
        if case.get("session") is not None:
            script = [RP.login(bytes.fromhex(case["session"]))]
        if case.get("faults"):
            # replies with a fault at one or more steps after the login (login reply stays valid: C01's precondition)
            from props import c09

            valid = c09.valid_replies(case["op"])
            script = []
            for step, v in enumerate(valid):
                f = case["faults"].get(str(step))
                script.append(Ellipsis if f is None else c09.make_reply(v, tuple(f)))
            w.dirty = True
        args = dict(case.get("args") or {})
        if "ir_len" in args:
            args["remote_obj"] = length_remote(args.pop("ir_len"), case["op"] == "breeze_swing")
        out, writes, rx = w.run_op(case["op"], args, script=script)
        sessions = list(w.device.sessions[-1:])
        return {"out": out, "writes": writes, "rx": rx, "session": sessions[0] if sessions else None}


_len_remotes = {}


def length_remote(L, special):
    """A remote whose 'off' (and FUN_d1) IR text is exactly L bytes long."""
    from aioswitcher.api.remotes import SwitcherBreezeRemote

    k = (L, special)
    if k not in _len_remotes:
        if len(_len_remotes) > 64:
            _len_remotes.clear()
        waves = [{"Key": "ad", "Para": "p", "HexCode": "h"}]
        for key in ("off", "FUN_d1", "FUN_d0"):
            waves.append({"Key": key, "Para": "", "HexCode": "x" * (L - 1)})
        _len_remotes[k] = SwitcherBreezeRemote({"IRSetID": "ELEC7022" if special else "ELEC7001", "OnOffType": 0, "IRWaveList": waves})
    return _len_remotes[k]


def describe_out(out):
    if out[0] == "ok":
        return "returned " + type(out[1]).__name__
    if out[0] == "exc":
        return f"raised {type(out[1]).__name__}: {out[1]}"
    return out[0]


# ---------------------------------------------------------------------------
# oracles


def judge_c01(case, r, res):
    """Every frame written must be self-consistent and signed (given a login reply with a session id)."""
    ok = True
    for i, w in enumerate(r["writes"]):
        bad = F.wellformed(w)
        for clause, detail in bad:
            ok = False
            res.violation(f"frame-{clause}:{F.classify(w)}", case,
                          f"{case['op']} {case.get('args')}: frame {i} ({F.classify(w)}, {len(w)} bytes) fails '{clause}': {detail}",
                          None, w)
    if b"".join(r["writes"]) != b"".join(r["rx"]):
        ok = False
        res.violation("wire-differs-from-writes", case, "bytes on the wire are not the concatenation of the written frames", r["writes"], r["rx"])
    if r["out"][0] == "hang":
        ok = False
        res.violation(f"operation-hangs:{case['op']}", case, f"{case['op']} neither finished nor progressed", None, None)
    return ok


C02_IGNORE = {"session", "timestamp", "signature", "length"}


def judge_c02(case, r, res):
    """The command frame must be the reference encoding of the arguments; rejected arguments raise first."""
    exp = expect(case)
    writes = r["writes"]
    out = r["out"]
    op = case["op"]
    if exp[0] == "unjudged":
        res.counters["unjudged"] += 1
        return None
    if out[0] == "hang":
        res.violation(f"operation-hangs:{op}", case, f"{op} neither finished nor progressed", None, None)
        return False
    kinds = [F.classify(w) for w in writes]
    if exp[0] == "raise" or (exp[0] == "frame-or-raise" and out[0] == "exc"):
        if out[0] != "exc":
            res.violation(f"accepts-invalid-argument:{op}", case,
                          f"{op} {case.get('args')} must raise but {describe_out(out)}; frames written: {kinds}", "raise", describe_out(out))
            return False
        if len(writes) > 1 or (writes and not kinds[0].startswith("login")):
            res.violation(f"command-written-for-rejected-argument:{op}", case,
                          f"{op} {case.get('args')} raised but wrote {kinds}", ["login only"], kinds)
            return False
        res.outcome(("rejects", op))
        return True
    _, fop, fields = exp
    if out[0] != "ok":
        res.violation(f"rejects-valid-argument:{op}", case, f"{op} {case.get('args')} {describe_out(out)}", "frame " + fop, describe_out(out))
        return False
    shape = expected_shape(op, case.get("args"))
    if len(writes) != len(shape):
        res.violation(f"frame-count:{op}", case, f"{op} wrote {kinds}, expected {shape}", shape, kinds)
        return False
    cmd = writes[-1]
    variants = [{}]
    if fop == "create_schedule":
        variants = [{"start": s, "end": e} for s in sorted(fields["start"]) for e in sorted(fields["end"])]
    first = None
    for v in variants:
        f = dict(fields)
        f.update(v)
        want = F.encode(fop, **f)
        d = F.diff(want, cmd, ignore=C02_IGNORE)
        if d is None:
            res.outcome((fop, len(cmd)))
            return True
        first = first or (d, want)
    res.violation(f"command-frame-layout:{fop}", case, f"{op} {case.get('args')} id={case['id']}: {first[0]}", first[1], cmd)
    return False
