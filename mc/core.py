"""Driver pieces shared by every property check: results, parallel map, evidence, findings."""
from __future__ import annotations

import hashlib
import json
import multiprocessing as mp
import os
import sys
import time
import traceback
from collections import Counter

from . import VERIF_DIR

EVIDENCE_SCHEMA = "/root/.vp/EVIDENCE.schema.json"
KNOWN_FINDINGS = os.path.join(VERIF_DIR, "known_findings.json")
REPLAY_DIR = os.environ.get("VERIF_REPLAY_DIR") or os.path.join(VERIF_DIR, "replays")
EVIDENCE_DIR = os.environ.get("VERIF_EVIDENCE_DIR") or os.path.join(VERIF_DIR, "evidence")
MAX_VIOL_PER_SIG = 2
MAX_SAMPLES = 6


class HarnessError(Exception):
    """An environment problem of the harness itself (never a property violation)."""


def khash(key) -> int:
    """Deterministic 64-bit key for distinct-case counting."""
    h = hashlib.blake2b(repr(key).encode("utf-8", "backslashreplace"), digest_size=8)
    return int.from_bytes(h.digest(), "big")


def jsonable(x):
    if isinstance(x, (bytes, bytearray)):
        return {"hex": bytes(x).hex()}
    if isinstance(x, dict):
        return {str(k): jsonable(v) for k, v in x.items()}
    if isinstance(x, (list, tuple)):
        return [jsonable(v) for v in x]
    if isinstance(x, (set, frozenset)):
        return sorted((jsonable(v) for v in x), key=repr)
    if isinstance(x, (str, int, float, bool)) or x is None:
        return x
    return repr(x)


def unjson(x):
    """Inverse of jsonable for the bytes wrapper (lists stay lists)."""
    if isinstance(x, dict):
        if set(x) == {"hex"}:
            return bytes.fromhex(x["hex"])
        return {k: unjson(v) for k, v in x.items()}
    if isinstance(x, list):
        return [unjson(v) for v in x]
    return x


class Res:
    """What one job (or a whole run, after merging) covered and found."""

    def __init__(self):
        self.evals = 0
        self.keys = set()  # 64-bit hashes of distinct non-trivial cases
        self.outcomes = set()  # small hashable descriptions of distinct observed outcomes
        self.violations = []
        self.vcount = Counter()  # signature -> total number seen
        self.samples = []
        self.counters = Counter()
        self.states = set()
        self.transitions = set()
        self.kcount = 0  # distinct non-trivial cases that are distinct by construction (counted, not stored)
        self.tcount = 0  # transitions distinct by construction, counted instead of stored
        self.traces = 0
        self.notes = []
        self.sets = {}  # name -> set, merged by union (module-specific bookkeeping)

    # -- recording -------------------------------------------------------
    def case(self, key=None, nontrivial=True, n=1):
        self.evals += n
        if nontrivial and key is not None:
            self.keys.add(khash(key))

    def outcome(self, o):
        if len(self.outcomes) < 50000:
            self.outcomes.add(o if isinstance(o, (str, int)) else khash(o))

    def sample(self, s):
        if len(self.samples) < MAX_SAMPLES:
            self.samples.append(jsonable(s))

    def violation(self, signature, case, message, expected=None, observed=None):
        self.vcount[signature] += 1
        if self.vcount[signature] <= MAX_VIOL_PER_SIG:
            self.violations.append(
                {
                    "signature": signature,
                    "case": jsonable(case),
                    "message": message,
                    "expected": jsonable(expected),
                    "observed": jsonable(observed),
                }
            )

    def add(self, name, item):
        self.sets.setdefault(name, set()).add(item)

    def state(self, s):
        self.states.add(s if isinstance(s, int) else khash(s))

    def transition(self, t):
        self.transitions.add(t if isinstance(t, int) else khash(t))

    # -- merging ---------------------------------------------------------
    def merge(self, other: "Res"):
        self.evals += other.evals
        self.keys |= other.keys
        self.outcomes |= other.outcomes
        for v in other.violations:
            n = sum(1 for w in self.violations if w["signature"] == v["signature"])
            if n < MAX_VIOL_PER_SIG:
                self.violations.append(v)
        self.vcount.update(other.vcount)
        for s in other.samples:
            if len(self.samples) < MAX_SAMPLES:
                self.samples.append(s)
        self.counters.update(other.counters)
        self.states |= other.states
        self.transitions |= other.transitions
        self.tcount += other.tcount
        self.kcount += other.kcount
        self.traces += other.traces
        self.notes.extend(n for n in other.notes if n not in self.notes)
        for k, v in other.sets.items():
            self.sets.setdefault(k, set()).update(v)


# ---------------------------------------------------------------------------
# parallel map over jobs with long-lived workers


def _worker(arg):
    modname, job = arg
    import importlib

    mod = importlib.import_module(modname)
    # the library's behaviour must not depend on how verbose its logging is: every other job runs with the
    # aioswitcher loggers at DEBUG (decided by the job itself, so a replay of the job sees the same level)
    import logging

    logging.getLogger("aioswitcher").setLevel(logging.DEBUG if khash(jsonable(job)) % 2 else logging.WARNING)
    try:
        r = mod.run_job(job)
        if r is None:
            raise HarnessError(f"{modname}.run_job returned None for {job!r}")
        for v in r.violations:
            v["job"] = job  # lets the driver fall back to replaying the whole job (state leaked between executions)
        return ("ok", r)
    except HarnessError as exc:
        return ("harness", f"{exc}\n{traceback.format_exc()}")
    except BaseException as exc:  # noqa: BLE001 - reported, then confirmed by replay
        return ("exc", (job, f"{type(exc).__name__}: {exc}", traceback.format_exc()))


JOB_TIMEOUT = float(os.environ.get("VERIF_JOB_TIMEOUT", "1800"))


def run_jobs(mod, jobs, workers):
    """Run every job; returns (merged Res, list of job-level exceptions, harness errors)."""
    merged = Res()
    job_excs, harness = [], []
    args = [(mod.__name__, j) for j in jobs]
    if workers <= 1 or len(jobs) <= 1:
        results = map(_worker, args)
        pool = None
    else:
        ctx = mp.get_context("fork")
        pool = ctx.Pool(min(workers, len(jobs)))
        results = pool.imap_unordered(_worker, args, chunksize=1)
    try:
        it = iter(results)
        while True:
            try:
                kind, payload = it.next(JOB_TIMEOUT) if pool is not None else next(it)
            except StopIteration:
                break
            except mp.TimeoutError:
                harness.append(f"no job finished within {JOB_TIMEOUT:.0f} s (hang); workers terminated")
                pool.terminate()
                pool = None
                break
            if kind == "ok":
                merged.merge(payload)
            elif kind == "harness":
                harness.append(payload)
            else:
                job_excs.append(payload)
    finally:
        if pool is not None:
            pool.close()
            pool.join()
    return merged, job_excs, harness


# ---------------------------------------------------------------------------
# known findings


def load_findings():
    if not os.path.exists(KNOWN_FINDINGS):
        return []
    with open(KNOWN_FINDINGS) as fh:
        return json.load(fh).get("entries", [])


def match_finding(pid, signature, findings):
    """A violation is suppressed only by a 'finding' entry naming exactly its signature."""
    for f in findings:
        if f.get("status") == "finding" and f.get("property") == pid:
            if f.get("signature") == signature:
                return f
    return None


# ---------------------------------------------------------------------------
# evidence


def write_evidence(pid, tier, seed, level, coverage, assumptions, wall, nviol):
    os.makedirs(EVIDENCE_DIR, exist_ok=True)
    ev = {
        "property_id": pid,
        "tier": tier,
        "seed": seed,
        "level": level,
        "coverage": coverage,
        "assumptions": assumptions,
        "wall_s": round(wall, 3),
        "violations": nviol,
    }
    try:
        import jsonschema

        with open(EVIDENCE_SCHEMA) as fh:
            schema = json.load(fh)
        jsonschema.validate(ev, schema)
    except FileNotFoundError:
        pass
    path = os.path.join(EVIDENCE_DIR, f"{pid}.json")
    tmp = path + ".tmp"
    with open(tmp, "w") as fh:
        json.dump(ev, fh, indent=1, sort_keys=True, ensure_ascii=True)
        fh.write("\n")
    os.replace(tmp, path)
    return path


def write_replay(pid, tier, seed, viol):
    os.makedirs(REPLAY_DIR, exist_ok=True)
    body = {
        "property": pid,
        "tier": tier,
        "seed": seed,
        "signature": viol["signature"],
        "message": viol["message"],
        "case": viol["case"],
        "expected": viol.get("expected"),
        "observed": viol.get("observed"),
    }
    blob = json.dumps(body, sort_keys=True, ensure_ascii=True)
    digest = hashlib.sha1(blob.encode()).hexdigest()[:12]
    path = os.path.join(REPLAY_DIR, f"{pid}-{digest}.json")
    with open(path, "w") as fh:
        fh.write(json.dumps(body, indent=1, sort_keys=True, ensure_ascii=True) + "\n")
    return path


def now():
    return time.monotonic()


def log(*a):
    print(*a, file=sys.stderr, flush=True)


# ---------------------------------------------------------------------------
# the same check under `python -O` (asserts and `if __debug__` blocks stripped): a property holds there too


def optimized_job(jobs):
    """Append the -O pass to a job list unless this already is that pass."""
    if not os.environ.get("VERIF_NO_OPT"):
        jobs.append({"part": "optimized"})
    return jobs


def run_optimized(pid, tier, res):
    """Run the whole check once more in a `python -O` interpreter; what it sees is reported here."""
    import subprocess
    import tempfile

    with tempfile.TemporaryDirectory() as tmp:
        env = dict(os.environ, VERIF_FULLRUN="1", VERIF_NO_OPT="1", VERIF_EVIDENCE_DIR=tmp, VERIF_REPLAY_DIR=tmp)
        r = subprocess.run([sys.executable, "-O", "-m", "mc.cli", pid, "--tier", tier, "--workers", "8"], capture_output=True, text=True, cwd=VERIF_DIR, env=env, timeout=1500)
    seen = sorted(l[len("SEEN signature="):].strip() for l in r.stdout.splitlines() if l.startswith("SEEN signature="))
    res.case(("optimized", pid))
    res.counters["python_O_pass_ran"] += 1
    if r.returncode != 0 and not seen:
        raise HarnessError(f"the -O pass of {pid} failed: {(r.stdout + r.stderr)[-800:]}")
    for sig in seen:
        res.violation("under-python-O:" + sig, {"part": "optimized", "tier": tier}, f"with `python -O` (asserts and __debug__ blocks stripped) the check reports: {sig}")
    return seen
