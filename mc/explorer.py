"""Stateless choice-sequence explorer (prefix replay on a fresh world, deviation bounding).

A scenario is `run(ch)`: it builds a fresh world and calls `ch.choose(n, label)` at every point
where the environment could answer in more than one way; choice 0 is the default answer.
`explore` runs the default execution, then for every choice point of every execution every
alternative, recursively, pruning prefixes whose deviation cost exceeds `bound` (None = unbounded:
every choice sequence is executed).  A replayed prefix must meet the same (arity, label) at every
recorded point, otherwise ReplayDivergence is raised (nondeterminism the harness does not own).
"""
from __future__ import annotations

from .core import HarnessError


class ReplayDivergence(HarnessError):
    pass


class Chooser:
    def __init__(self, prefix=(), expect=()):
        self.prefix = list(prefix)
        self.expect = list(expect)  # (n, label) recorded when the prefix was discovered
        self.trace = []  # (n, label, choice)
        self.diverged = None  # latched: choose() may run inside callbacks whose exceptions the event loop swallows

    def choose(self, n, label=""):
        i = len(self.trace)
        if n <= 0:
            raise HarnessError(f"choice point {label!r} with no alternatives")
        if i < len(self.prefix):
            c = self.prefix[i]
            if i < len(self.expect) and self.expect[i] != (n, label) and self.diverged is None:
                self.diverged = f"choice point {i}: replay met {(n, label)}, recorded {self.expect[i]}"
            if c >= n:
                if self.diverged is None:
                    self.diverged = f"choice point {i}: recorded choice {c} of {n} ({label})"
                c = n - 1
        else:
            c = 0
        self.trace.append((n, label, c))
        return c

    @property
    def choices(self):
        return [t[2] for t in self.trace]


def default_cost(label, choice):
    return 1 if choice else 0


def explore(run, on_exec, bound=None, cost=default_cost, fixed_prefix=(), limit=None, on_diverge=None):
    """Run every execution within the bound. Returns (executions, capped).

    A replayed prefix that does not meet the recorded choice points is a divergence: by default a hard
    error; with `on_diverge(ch, message)` the caller records it (the execution's oracle has already run
    through on_exec) and the diverged execution is not expanded further."""
    stack = [(list(fixed_prefix), [])]
    nfixed = len(fixed_prefix)
    execs = 0
    while stack:
        prefix, expect = stack.pop()
        ch = Chooser(prefix, expect)
        result = run(ch)
        execs += 1
        on_exec(ch, result)
        if limit is not None and execs >= limit:
            return execs, bool(stack)
        tr = ch.trace
        if ch.diverged is None and len(tr) < len(prefix):
            ch.diverged = f"execution ended after {len(tr)} choice points, prefix has {len(prefix)}"
        if ch.diverged is not None:
            if on_diverge is None:
                raise ReplayDivergence(ch.diverged)
            on_diverge(ch, ch.diverged)
            continue
        acc = 0
        costs = []
        for n, label, c in tr:
            costs.append(acc)
            acc += cost(label, c)
        for i in range(max(len(prefix), nfixed), len(tr)):
            n, label, c = tr[i]
            for alt in range(1, n):
                if bound is not None and costs[i] + cost(label, alt) > bound:
                    continue
                stack.append(([t[2] for t in tr[:i]] + [alt], [(t[0], t[1]) for t in tr[: i + 1]]))
    return execs, False


def replay(run, choices):
    ch = Chooser(choices)
    return ch, run(ch)
