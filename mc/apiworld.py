"""Drive the real SwitcherType1Api / SwitcherType2Api against a scripted fake device on a VLoop."""
from __future__ import annotations

import datetime
import struct

from ref import frames as F
from ref import irset as IR
from ref import replies as RP

from .world import Hang, new_loop, task_outcome

EOF = None  # responder value: the device ends the stream


def api_class(kind):
    from aioswitcher import api

    return api.SwitcherType1Api if kind == 1 else api.SwitcherType2Api


# The 16 operation kinds (15 frame kinds of the statement; thermostat control appears in 3 shapes).
# name -> (api kind, default args)
OPS = {
    "get_state": (1, {}),
    "control_on": (1, {"minutes": 0}),
    "control_off": (1, {}),
    "control_timer": (1, {"minutes": 90}),
    "set_auto_shutdown": (1, {"seconds": 5400}),
    "set_device_name": (1, {"name": "Boiler one"}),
    "get_schedules": (1, {}),
    "delete_schedule": (1, {"slot": 3}),
    "create_schedule": (1, {"start": "13:00", "end": "14:30", "days": [0, 2]}),
    "stop": (2, {}),
    "set_position": (2, {"position": 50}),
    "get_shutter_state": (2, {}),
    "get_breeze_state": (2, {}),
    "breeze_main": (2, {"remote": "plain", "state": "on", "mode": "cool", "temp": 23, "fan": "low", "swing": "on"}),
    "breeze_swing": (2, {"remote": "special", "state": "on", "mode": "cool", "temp": 23, "fan": "low", "swing": "on"}),
    "breeze_update": (2, {"remote": "plain", "state": "on", "mode": "heat", "temp": 25, "fan": "high", "swing": "off", "update": True}),
}
# further shapes of thermostat control (used by the fault and lifecycle checks, not part of the 16 kinds)
EXTRA_OPS = {
    "breeze_swing_only": (2, {"remote": "special", "state": None, "mode": None, "temp": 0, "fan": None, "swing": "on"}),
    "breeze_plain_swing_only": (2, {"remote": "plain", "state": None, "mode": None, "temp": 0, "fan": None, "swing": "off"}),
    "breeze_temp_only": (2, {"remote": "special", "state": None, "mode": None, "temp": 27, "fan": None, "swing": None}),
}
OPS.update(EXTRA_OPS)
OPS1 = [k for k, v in OPS.items() if v[0] == 1 and k not in EXTRA_OPS]
OPS2 = [k for k, v in OPS.items() if v[0] == 2 and k not in EXTRA_OPS]

_remotes = {}


def remote(kind="plain", toggle=False, pad=0, **kw):
    from aioswitcher.api.remotes import SwitcherBreezeRemote

    key = (kind, toggle, pad, tuple(sorted(kw.items())))
    if key not in _remotes:
        rid = "ELEC7022" if kind == "special" else "ELEC7001"
        _remotes[key] = (SwitcherBreezeRemote(IR.make_set(rid, toggle=toggle, pad=pad, **kw)), IR.make_set(rid, toggle=toggle, pad=pad, **kw))
    return _remotes[key]


def _enum(cls, name):
    for m in cls:
        if m.display == name:
            return m
    raise KeyError(name)


def call(api, op, args):
    """Build the coroutine for `op` with JSON-able `args`."""
    from aioswitcher import device as d
    from aioswitcher.api import Command
    from aioswitcher.schedule import Days

    a = dict(OPS[op][1])
    a.update(args or {})
    if a.get("by_keyword"):
        # the documented parameter names are part of the public interface
        if op in ("control_on", "control_timer"):
            return api.control_device(command=Command.ON, minutes=a["minutes"])
        if op == "control_off":
            return api.control_device(minutes=a.get("minutes", 0), command=Command.OFF)
        if op == "set_auto_shutdown":
            return api.set_auto_shutdown(full_time=datetime.timedelta(seconds=a["seconds"], microseconds=a.get("micros", 0)))
        if op == "set_device_name":
            return api.set_device_name(name=a["name"])
        if op == "delete_schedule":
            return api.delete_schedule(schedule_id=str(a["slot"]))
        if op == "create_schedule":
            alld = list(Days)
            return api.create_schedule(days={alld[i] for i in a["days"]}, end_time=a["end"], start_time=a["start"])
        if op == "set_position":
            return api.set_position(position=a["position"])
    if op == "get_state":
        return api.get_state()
    if op in ("control_on", "control_timer"):
        return api.control_device(Command.ON, a["minutes"])
    if op == "control_off":
        return api.control_device(Command.OFF, a.get("minutes", 0)) if "minutes" in a else api.control_device(Command.OFF)
    if op == "set_auto_shutdown":
        td = datetime.timedelta(seconds=a["seconds"], microseconds=a.get("micros", 0))
        return api.set_auto_shutdown(td)
    if op == "set_device_name":
        return api.set_device_name(a["name"])
    if op == "get_schedules":
        return api.get_schedules()
    if op == "delete_schedule":
        return api.delete_schedule(str(a["slot"]))
    if op == "create_schedule":
        alld = list(Days)
        form = a.get("days_form", "set")
        days = [alld[i] for i in a["days"]]
        days = set(days) if form == "set" else (frozenset(days) if form == "frozenset" else (list(days) if form == "list" else tuple(days)))
        return api.create_schedule(a["start"], a["end"], days)
    if op == "stop":
        return api.stop()
    if op == "set_position":
        return api.set_position(a["position"])
    if op == "get_shutter_state":
        return api.get_shutter_state()
    if op == "get_breeze_state":
        return api.get_breeze_state()
    if op.startswith("breeze_"):
        rem = a.get("remote_obj") or remote(a["remote"], a.get("toggle", False), a.get("pad", 0))[0]
        if a.get("positional"):
            return api.control_breeze_device(
                rem,
                None if a.get("state") is None else _enum(d.DeviceState, a["state"]),
                None if a.get("mode") is None else _enum(d.ThermostatMode, a["mode"]),
                a.get("temp") or 0,
                None if a.get("fan") is None else _enum(d.ThermostatFanLevel, a["fan"]),
                None if a.get("swing") is None else _enum(d.ThermostatSwing, a["swing"]),
                bool(a.get("update", False)),
            )
        return api.control_breeze_device(
            rem,
            state=None if a.get("state") is None else _enum(d.DeviceState, a["state"]),
            mode=None if a.get("mode") is None else _enum(d.ThermostatMode, a["mode"]),
            target_temp=a.get("temp") or 0,
            fan_level=None if a.get("fan") is None else _enum(d.ThermostatFanLevel, a["fan"]),
            swing=None if a.get("swing") is None else _enum(d.ThermostatSwing, a["swing"]),
            update_state=bool(a.get("update", False)),
        )
    raise KeyError(op)


def expected_shape(op, args=None):
    """Frame kinds the model expects for `op` when every reply is valid."""
    a = dict(OPS[op][1])
    a.update(args or {})
    if OPS[op][0] == 1:
        cmd = {"get_state": "get_state1", "control_on": "control", "control_off": "control", "control_timer": "control",
               "set_auto_shutdown": "auto_off", "set_device_name": "set_name", "get_schedules": "get_schedules",
               "delete_schedule": "delete_schedule", "create_schedule": "create_schedule"}[op]
        return ["login1", cmd]
    if op in ("stop", "set_position"):
        return ["login2", op]
    if op in ("get_shutter_state", "get_breeze_state"):
        return ["login2", "get_state2"]
    if op == "breeze_main":
        return ["login2", "get_state2", "breeze_command"]
    if op == "breeze_swing":
        return ["login2", "get_state2", "breeze_command", "breeze_command"]
    if op == "breeze_update":
        return ["login2", "get_state2", "breeze_update"]
    if op == "breeze_swing_only":
        return ["login2", "breeze_command"]
    if op in ("breeze_plain_swing_only", "breeze_temp_only"):
        return ["login2", "get_state2", "breeze_command"]
    raise KeyError(op)


DEFAULT_THERMO = dict(on=False, mode="dry", fan="auto", swing=False, temp_tenths=281, target=24, remote="ELEC7001")


class Device:
    """A well-behaved device: answers by frame position within the current operation."""

    def __init__(self, session_base=0x5E000000):
        self.logins = 0
        self.session_base = session_base
        self.sessions = []  # session ids issued, in order
        self.thermo = dict(DEFAULT_THERMO)
        self.script = None  # optional list of replies for the current operation (by position)
        self.pos = 0
        self.state1 = (True, 1640, 2700, 2700, 10800)
        self.shutter = (50, "stop")
        self.sched_records = []

    # session ids a device may well hand out, issued once each at fixed login counts (only by the first device of a world,
    # so that ids never repeat across devices)
    SPECIAL_SESSIONS = {2: "00000000", 3: "ffffffff", 4: "fef0f0fe", 5: "0a0d0a0d", 7: "30303030"}

    def new_session(self):
        self.logins += 1
        s = struct.pack("<I", (self.session_base + self.logins * 0x01010101 + (self.logins << 8)) & 0xFFFFFFFF)
        if self.session_base == 0x5E000000 and self.logins in self.SPECIAL_SESSIONS:
            s = bytes.fromhex(self.SPECIAL_SESSIONS[self.logins])
        self.sessions.append(s)
        return s

    def begin(self, kinds, script=None, state2_reply=None):
        """Start answering a new operation whose valid exchange has the frame kinds `kinds`."""
        self.kinds = list(kinds)
        self.script = script
        self.pos = 0
        self.state2_reply = state2_reply if state2_reply is not None else RP.thermostat(**self.thermo)

    def standard(self, pos, chunk):
        kind = self.kinds[pos] if pos < len(self.kinds) else None
        if kind in ("login1", "login2"):
            return RP.login(self.new_session())
        if kind == "get_state1":
            return RP.state1(*self.state1)
        if kind == "get_state2":
            return self.state2_reply
        if kind == "get_schedules":
            return RP.schedules(self.sched_records)
        return RP.generic()

    def respond(self, conn, chunk):
        pos = self.pos
        self.pos += 1
        if self.script is not None and pos < len(self.script) and self.script[pos] is not Ellipsis:
            r = self.script[pos]
            if isinstance(r, tuple) and r and r[0] == "delay" and r[2] is Ellipsis:
                r = ("delay", r[1], self.standard(pos, chunk))  # the standard reply, late
                return r
            raw = r[2] if isinstance(r, tuple) and r and r[0] == "delay" else r
            if pos < len(self.kinds) and self.kinds[pos].startswith("login"):
                # scripted login replies still count as logins for session bookkeeping
                self.logins += 1
                self.sessions.append(bytes(raw[8:12]) if raw and len(raw) >= 12 else None)
            return r
        return self.standard(pos, chunk)


class ApiWorld:
    """One VLoop + one API object (+ its device). Use as a context manager."""

    def __init__(self, kind, device_id="aabbcc", key="18", ip="192.168.7.21", loop=None, device=None):
        self.kind = kind
        self.own_loop = loop is None
        self.loop = loop or new_loop()
        self.api = api_class(kind)(ip, device_id, key)
        self.device_id = device_id
        self.key = key
        self.ip = ip
        self.device = device or Device()
        self.conn = None

    def __enter__(self):
        return self

    def __exit__(self, *a):
        if self.own_loop:
            self.loop.finish()
        return False

    def connect(self):
        n = len(self.loop.conns)
        t = self.loop.run_task(self.api.connect())
        out = task_outcome(t)
        if out[0] == "ok" and len(self.loop.conns) > n:
            self.conn = self.loop.conns[-1]
        return out

    def disconnect(self):
        t = self.loop.run_task(self.api.disconnect())
        return task_outcome(t)

    def run_op(self, op, args=None, script=None, state2_reply=None):
        """Run one operation to completion. Returns (outcome, frames written during it)."""
        conn = self.conn
        w0 = len(conn.writes)
        r0 = len(conn.rx)
        if state2_reply is None and op == "get_shutter_state":
            state2_reply = RP.shutter(*self.device.shutter)
        self.device.begin(expected_shape(op, args), script, state2_reply)
        try:
            coro = call(self.api, op, args)
        except Exception as exc:  # noqa: BLE001 - argument conversion failed before any I/O
            return ("exc", exc), [], []
        try:
            t = self.loop.run_task(coro, self.device.respond)
            out = task_outcome(t)
        except Hang:
            out = ("hang", None)
        conn.poll()
        return out, conn.writes[w0:], conn.rx[r0:]
