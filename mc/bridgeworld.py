"""Drive a real SwitcherBridge bound to real UDP ports on a VLoop."""
from __future__ import annotations

from .world import Capture, Hang, new_loop, port_block, task_outcome, udp_send, can_bind


class BridgeWorld:
    def __init__(self, nports=1, raise_on=None, loop=None, ports=None):
        from aioswitcher.bridge import SwitcherBridge

        self.loop = loop or new_loop()
        self.ports = list(ports) if ports is not None else port_block().ports[:nports]
        self.calls = []  # devices delivered, in order
        self.raise_on = raise_on or (lambda n, dev: False)
        self.bridge = SwitcherBridge(self._cb, broadcast_ports=self.ports)

    def _cb(self, dev):
        n = len(self.calls)
        self.calls.append(dev)
        if self.raise_on(n, dev):
            raise CallbackBoom(f"user callback failed on invocation {n}")

    def run(self, coro):
        try:
            return task_outcome(self.loop.run_task(coro))
        except Hang:
            return ("hang", None)

    def start(self):
        return self.run(self.bridge.start())

    def stop(self):
        return self.run(self.bridge.stop())

    def send(self, port, data):
        udp_send(port, data)

    def settle(self):
        return self.loop.settle(2000)

    def close(self):
        try:
            self.run(self.bridge.stop())
        except Exception:  # noqa: BLE001
            pass
        self.loop.finish()


class CallbackBoom(Exception):
    pass
