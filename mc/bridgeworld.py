"""Drive a real SwitcherBridge bound to real UDP ports on a VLoop."""
from __future__ import annotations

from .world import Capture, Hang, new_loop, port_block, task_outcome, udp_send, can_bind


class BridgeWorld:
    def __init__(self, nports=1, raise_on=None, loop=None, ports=None, cb_kind="method"):
        import functools

        from aioswitcher.bridge import SwitcherBridge

        self.loop = loop or new_loop()
        self.ports = list(ports) if ports is not None else port_block().ports[:nports]
        self.calls = []  # devices delivered, in order
        self.raise_on = raise_on or (lambda n, dev: False)
        # the user's callback in the shapes users write it
        if cb_kind == "method":
            cb = self._cb
        elif cb_kind == "function":
            def cb(dev, _self=self):
                _self._cb(dev)
        elif cb_kind == "lambda":
            cb = lambda dev: self._cb(dev)  # noqa: E731
        elif cb_kind == "partial":
            cb = functools.partial(BridgeWorld._cb, self)
        elif cb_kind == "temporary-object-method":
            cb = _Collector(self).add  # nothing else refers to the collector
        elif cb_kind == "callable-object":
            cb = _Collector(self)
        elif cb_kind == "list-append":
            cb = self.calls.append
        else:
            raise KeyError(cb_kind)
        self.bridge = SwitcherBridge(cb, broadcast_ports=self.ports)

    def _cb(self, dev):
        n = len(self.calls)
        self.calls.append(dev)
        if self.raise_on(n, dev):
            raise CallbackBoom(f"user callback failed on invocation {n}")

    def run(self, coro):
        try:
            return task_outcome(self.loop.run_task(coro))
        except Hang:
            return ("hang", None)

    def start(self):
        return self.run(self.bridge.start())

    def stop(self):
        return self.run(self.bridge.stop())

    def send(self, port, data):
        udp_send(port, data)

    def settle(self):
        return self.loop.settle(2000)

    def close(self):
        try:
            self.run(self.bridge.stop())
        except Exception:  # noqa: BLE001
            pass
        self.loop.finish()


class _Collector:
    def __init__(self, world):
        self.world = world

    def add(self, dev):
        self.world._cb(dev)

    __call__ = add


class CallbackBoom(Exception):
    pass
