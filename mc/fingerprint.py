"""Canonical fingerprints of implementation state (for state hashing in BFS explorations)."""
import sys
import types

from .core import khash


def _shallow(v, depth=0):
    if isinstance(v, (str, int, float, bool, bytes, type(None))):
        return v
    if isinstance(v, (list, tuple)):
        return tuple(_shallow(x, depth + 1) for x in v) if depth < 3 else len(v)
    if isinstance(v, (set, frozenset)):
        return tuple(sorted((repr(_shallow(x, depth + 1)) for x in v))) if depth < 3 else len(v)
    if isinstance(v, dict):
        return tuple(sorted((repr(k), repr(_shallow(x, depth + 1))) for k, x in v.items())) if depth < 3 else len(v)
    return None


def modules_digest(prefix="aioswitcher"):
    """Digest of every mutable module-level object and every function default in aioswitcher.*."""
    items = []
    for name in sorted(sys.modules):
        if not (name == prefix or name.startswith(prefix + ".")):
            continue
        mod = sys.modules[name]
        for k, v in sorted(vars(mod).items()):
            if k.startswith("__"):
                continue
            if isinstance(v, (dict, list, set, bytearray)):
                items.append((name, k, repr(_shallow(v))))
            elif isinstance(v, types.FunctionType) and v.__module__ == name:
                if v.__defaults__:
                    items.append((name, k, "defaults", repr(_shallow(list(v.__defaults__)))))
            elif isinstance(v, type) and v.__module__ == name:
                for ak, av in sorted(vars(v).items()):
                    if ak.startswith("__"):
                        continue
                    if isinstance(av, (dict, list, set, bytearray)):
                        items.append((name, k, ak, repr(_shallow(av))))
                    elif isinstance(av, types.FunctionType) and av.__defaults__:
                        items.append((name, k, ak, "defaults", repr(_shallow(list(av.__defaults__)))))
    return khash(items)


def _attrs(obj):
    """Instance attributes, also for classes that use __slots__."""
    d = dict(getattr(obj, "__dict__", {}) or {})
    for klass in type(obj).__mro__:
        for name in getattr(klass, "__slots__", ()) or ():
            if isinstance(name, str) and name not in ("__dict__", "__weakref__") and hasattr(obj, name):
                d.setdefault(name, getattr(obj, name))
    return d


def api_state(api):
    """Shallow, canonical view of an API object's own state."""
    out = []
    for k, v in sorted(_attrs(api).items()):
        if k == "_reader":
            buf = getattr(v, "_buffer", b"")
            out.append((k, len(buf), bool(getattr(v, "_eof", False)), repr(getattr(v, "_exception", None))))
        elif k == "_writer":
            tr = getattr(v, "transport", None)
            out.append((k, bool(tr.is_closing()) if tr is not None else None))
        else:
            s = _shallow(v)
            out.append((k, s if s is not None or v is None else type(v).__name__))
    return tuple(out)


def bridge_state(bridge):
    """Canonical view of a bridge object; configured port numbers are replaced by their index."""
    ports = list(getattr(bridge, "_broadcast_ports", []))
    idx = {p: i for i, p in enumerate(ports)}
    out = []
    for k, v in sorted(_attrs(bridge).items()):
        if k == "_transports":
            out.append((k, tuple(sorted((idx.get(p, p), (t is not None and not t.is_closing())) for p, t in v.items()))))
        elif k == "_broadcast_ports":
            out.append((k, len(v)))
        elif callable(v):
            out.append((k, "callable"))
        else:
            s = _shallow(v)
            out.append((k, s if s is not None or v is None else type(v).__name__))
    return tuple(out)
