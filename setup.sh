#!/bin/sh
# Offline setup: nothing to build. Verifies the interpreter and the modules the checks need.
cd "$(dirname "$0")" || exit 1
/venv/bin/python - <<'PY'
import sys
import jsonschema, time_machine  # noqa: F401  (both ship in /venv)
sys.path.insert(0, "/repo/src")
import aioswitcher  # noqa: F401
print("setup ok: python", sys.version.split()[0])
PY
mkdir -p evidence replays
